(* P_FragC.v — the client side: response_receiver::receive and the read loop of http_client::receive_handler do not
   depend on how the response stream is cut into reads (for responses that say how they are framed). *)
From Via Require Import M_Parse M_Receive P_Parse P_Frag.
From Coq Require Import Lia ZifyBool ZifyNat ZifyN.
Local Open Scope N_scope.
Arguments nlen : simpl never.
Arguments snoc : simpl never.

Definition cv_ok (v : creceiver) : Prop := rp_ok (cv_rsp v) /\ rc_ok (cv_chunk v).

Definition cframed_head (q : rx_response) : bool :=
  nonempty (hd_find (rp_headers q) hf_LC_CONTENT_LENGTH) || hd_is_chunked (rp_headers q).

Definition cframed_call (cfg : ccfg) (v : creceiver) (buf : str) : bool :=
  let '(q1, _, r1) := if negb (rp_valid (cv_rsp v)) then rp_parse (cc_lim cfg) (cv_rsp v) buf else (cv_rsp v, buf, Done) in
  match r1 with Done => cframed_head q1 | _ => true end.

Lemma rp_parse_flags L q buf q1 rest res : rp_valid q = false -> rp_parse L q buf = (q1, rest, res) ->
  match res with
  | Done => rp_valid q1 = true
  | More => rest = [] /\ rp_valid q1 = false
  | Fail => sl_fail (rp_line q1) || hd_fail (rp_headers q1) = true
  end.
Proof.
  intros Hv. unfold rp_parse.
  destruct (sl_valid (rp_line q)) eqn:Esv.
  - destruct (hd_valid (rp_headers q)) eqn:Ehv.
    + intros H; inversion H; reflexivity.
    + destruct (hd_parse L (rp_headers q) buf) as [[h1 b2] r2] eqn:Eh. destruct r2; intros H; inversion H; subst; try reflexivity.
      * destruct (hd_parse_more L _ _ _ _ Eh) as [-> _]. split; [reflexivity|exact Hv].
      * cbn [rp_line rp_headers]. rewrite (hd_parse_fail L _ _ _ _ Eh). apply Bool.orb_true_r.
  - destruct (sl_parse L (rp_line q) buf) as [[l1 b1] r1] eqn:El. destruct r1.
    + destruct (hd_valid (rp_headers q)) eqn:Ehv.
      * intros H; inversion H; reflexivity.
      * destruct (hd_parse L (rp_headers q) b1) as [[h1 b2] r2] eqn:Eh. destruct r2; intros H; inversion H; subst; try reflexivity.
        -- destruct (hd_parse_more L _ _ _ _ Eh) as [-> _]. split; [reflexivity|exact Hv].
        -- cbn [rp_line rp_headers]. rewrite (hd_parse_fail L _ _ _ _ Eh). apply Bool.orb_true_r.
    + intros H; inversion H; subst. destruct (sl_parse_flags L _ _ _ _ _ El) as [-> _]. split; [reflexivity|exact Hv].
    + intros H; inversion H; subst. cbn [rp_line rp_headers]. rewrite (sl_parse_fail L _ _ _ _ El). reflexivity.
Qed.

(* the part of creceive after the head, as a function of the head q1 and of what follows it *)
Definition cbody (cfg : ccfg) (response_parsed : bool) (v0 : creceiver) (q1 : rx_response) (b1 : str) : creceiver * str * rx :=
  let L := cc_lim cfg in
  let v1 := mk_cv q1 (cv_chunk v0) (cv_body v0) in
  if negb (hd_is_chunked (rp_headers q1)) then
    match hd_content_length (rp_headers q1) with
    | None => (cv_clear v1, b1, RX_INVALID)
    | Some n =>
        let rx_size := nlen b1 in
        let no_content_length := (0 <? rx_size) && (n =? 0) && negb (nonempty (hd_find (rp_headers q1) hf_LC_CONTENT_LENGTH)) in
        let cl := if no_content_length then cc_max_body cfg else n in
        let required := (Z.of_N cl - Z.of_N (nlen (cv_body v1)))%Z in
        if (required <? Z.of_N rx_size)%Z && no_content_length then (cv_clear v1, b1, RX_INVALID)
        else if (required <? 0)%Z && (required <? Z.of_N rx_size)%Z then (v1, b1, RX_UB)
        else
          let '(body, b2) :=
            if (required <? Z.of_N rx_size)%Z
            then (cv_body v1 ++ firstn (Z.to_nat required) b1, skipn (Z.to_nat required) b1)
            else (cv_body v1 ++ b1, []) in
          let v2 := mk_cv q1 (cv_chunk v1) body in
          if nlen body =? n then (v2, b2, RX_VALID) else (v2, b2, RX_INCOMPLETE)
    end
  else
    let k0 := if rc_valid (cv_chunk v1) then rc_clear (cv_chunk v1) else cv_chunk v1 in
    let v2 := mk_cv q1 k0 (cv_body v1) in
    if response_parsed then (v2, b1, RX_VALID)
    else
      let '(k1, b2, r2) := rc_parse L k0 b1 in
      let v3 := mk_cv q1 k1 (cv_body v2) in
      let failed := match r2 with Done => false | _ => nonempty b2 || rc_failed k1 end in
      if failed then (cv_clear v3, b2, RX_INVALID)
      else if rc_valid k1 then (v3, b2, RX_CHUNK)
      else (v3, b2, RX_INCOMPLETE).

Lemma creceive_unfold cfg v0 buf :
  creceive cfg v0 buf =
  let response_parsed := negb (rp_valid (cv_rsp v0)) in
  let '(q1, b1, r1) := if response_parsed then rp_parse (cc_lim cfg) (cv_rsp v0) buf else (cv_rsp v0, buf, Done) in
  match r1 with
  | More | Fail =>
      if nonempty b1 || sl_fail (rp_line q1) || hd_fail (rp_headers q1)
      then (cv_clear (mk_cv q1 (cv_chunk v0) (cv_body v0)), b1, RX_INVALID)
      else (mk_cv q1 (cv_chunk v0) (cv_body v0), b1, RX_INCOMPLETE)
  | Done => cbody cfg response_parsed v0 q1 b1
  end.
Proof.
  unfold creceive, cbody. cbv zeta.
  destruct (if negb (rp_valid (cv_rsp v0)) then rp_parse (cc_lim cfg) (cv_rsp v0) buf else (cv_rsp v0, buf, Done)) as [[q1 b1] r1].
  destruct r1; reflexivity.
Qed.

Lemma cbody_app cfg rp v0 q1 x b v3 ra r : rc_ok (cv_chunk v0) -> cframed_head q1 = true ->
  cbody cfg rp v0 q1 x = (v3, ra, r) ->
  (ra <> [] -> cbody cfg rp v0 q1 (x ++ b) = (v3, ra ++ b, r)) /\
  (ra = [] -> r = RX_INCOMPLETE -> cv_rsp v3 = q1 /\ cbody cfg rp v0 q1 (x ++ b) = cbody cfg false v3 q1 b) /\
  (ra = [] -> r = RX_VALID \/ r = RX_CHUNK -> cbody cfg rp v0 q1 (x ++ b) = (v3, b, r)).
Proof.
  intros Hok Hfr H. unfold cbody in H. unfold cbody at 1 2 4. cbv zeta in H |- *.
  cbn [cv_rsp cv_chunk cv_body] in *.
  destruct (negb (hd_is_chunked (rp_headers q1))) eqn:Ech.
  - (* Content-Length *)
    assert (Hcl : nonempty (hd_find (rp_headers q1) hf_LC_CONTENT_LENGTH) = true).
    { unfold cframed_head in Hfr. destruct (hd_is_chunked (rp_headers q1)); [discriminate Ech|]. rewrite Bool.orb_false_r in Hfr. exact Hfr. }
    rewrite Hcl in *.
    destruct (hd_content_length (rp_headers q1)) as [n|] eqn:Ecl.
    2:{ inversion H; subst. split; [intros _; reflexivity | split; [intros _ E; discriminate E | intros _ [E|E]; discriminate E]]. }
    cbn [negb] in *. rewrite ?Bool.andb_false_r in *. cbv iota in H |- *.
    set (required := (Z.of_N n - Z.of_N (nlen (cv_body v0)))%Z) in *.
    rewrite nlen_app'.
    destruct (required <? 0)%Z eqn:Eneg.
    { replace (required <? Z.of_N (nlen x))%Z with true in H by (unfold nlen; lia).
      replace (required <? Z.of_N (nlen x + nlen b))%Z with true by (unfold nlen; lia).
      cbn [andb] in *. inversion H; subst.
      split; [intros _; reflexivity | split; [intros _ E; discriminate E | intros _ [E|E]; discriminate E]]. }
    cbn [andb] in *.
    destruct (required <? Z.of_N (nlen x))%Z eqn:Elt.
    + replace (required <? Z.of_N (nlen x + nlen b))%Z with true by (unfold nlen in *; lia).
      assert (Hn : (Z.to_nat required < length x)%nat) by (unfold nlen in Elt; lia).
      rewrite firstn_app_le, skipn_app_le by lia.
      pose proof (skipn_nonempty _ _ Hn) as Hsk.
      destruct (nlen (cv_body v0 ++ firstn (Z.to_nat required) x) =? n); inversion H; subst;
        (split; [reflexivity | split; intros E; contradiction]).
    + assert (Hge : (length x <= Z.to_nat required)%nat) by (unfold nlen in Elt; lia).
      destruct (nlen (cv_body v0 ++ x) =? n) eqn:Efull.
      * (* complete with the last byte *)
        inversion H; subst. clear H. split; [intros E; contradiction|]. split; [intros _ E; discriminate E|]. intros _ _.
        assert (Hreq : Z.to_nat required = length x) by (rewrite nlen_app' in Efull; unfold required, nlen in *; lia).
        destruct b as [|y b'].
        -- rewrite app_nil_r. replace (required <? Z.of_N (nlen x + nlen []))%Z with false by (unfold nlen in *; cbn [length]; lia).
           rewrite Efull. reflexivity.
        -- replace (required <? Z.of_N (nlen x + nlen (y :: b')))%Z with true by (unfold nlen in *; cbn [length]; lia).
           rewrite Hreq, firstn_app_exact, skipn_app_exact, Efull. reflexivity.
      * inversion H; subst. clear H. split; [intros E; contradiction|].
        split; [|intros _ [E|E]; discriminate E]. intros _ _. split; [reflexivity|].
        unfold cbody. cbv zeta. cbn [cv_rsp cv_chunk cv_body]. rewrite Ech, Ecl, Hcl. cbn [negb]. rewrite ?Bool.andb_false_r. cbv iota.
        rewrite nlen_app'.
        replace (Z.of_N n - Z.of_N (nlen (cv_body v0) + nlen x))%Z with (required - Z.of_N (nlen x))%Z by (unfold required; lia).
        replace (required - Z.of_N (nlen x) <? 0)%Z with false by (unfold nlen in *; lia). cbn [andb].
        destruct (required <? Z.of_N (nlen x + nlen b))%Z eqn:Elt2.
        -- replace (required - Z.of_N (nlen x) <? Z.of_N (nlen b))%Z with true by (unfold nlen in *; lia).
           rewrite firstn_app_ge, skipn_app_ge by lia.
           replace (Z.to_nat (required - Z.of_N (nlen x))) with (Z.to_nat required - length x)%nat by (unfold nlen; lia).
           rewrite <- app_assoc. reflexivity.
        -- replace (required - Z.of_N (nlen x) <? Z.of_N (nlen b))%Z with false by (unfold nlen in *; lia).
           rewrite <- app_assoc. reflexivity.
  - (* chunked *)
    set (k0 := if rc_valid (cv_chunk v0) then rc_clear (cv_chunk v0) else cv_chunk v0) in *.
    assert (Hok0 : rc_ok k0) by (unfold k0; destruct (rc_valid (cv_chunk v0)); [exact fl_ok_init | exact Hok]).
    assert (Hv0 : rc_valid k0 = false) by (unfold k0; destruct (rc_valid (cv_chunk v0)) eqn:E0; [reflexivity | exact E0]).
    destruct rp.
    { inversion H; subst. split; [reflexivity|]. split; [intros _ E; discriminate E | intros -> _; reflexivity]. }
    rewrite (rc_parse_app (cc_lim cfg) _ x b Hok0).
    destruct (rc_parse (cc_lim cfg) k0 x) as [[k1 b2] r2] eqn:Ep. pose proof (rc_parse_flags _ _ _ _ _ _ Ep) as Hfl.
    destruct r2.
    + rewrite Hfl in *. inversion H; subst. split; [reflexivity|]. split; [intros _ E; discriminate E | intros -> _; reflexivity].
    + destruct Hfl as [-> Hv]. cbn [nonempty orb] in H. rewrite Hv0 in Hv.
      destruct (rc_failed k1).
      * inversion H; subst. split; [intros E; contradiction|]. split; [intros _ E; discriminate E | intros _ [E|E]; discriminate E].
      * rewrite Hv in H. inversion H; subst. clear H. split; [intros E; contradiction|]. split; [|intros _ [E|E]; discriminate E].
        intros _ _. split; [reflexivity|]. unfold cbody. cbv zeta. cbn [cv_rsp cv_chunk cv_body]. rewrite Ech, Hv. reflexivity.
    + rewrite Hfl, Bool.orb_true_r in H. rewrite Hfl, Bool.orb_true_r. inversion H; subst.
      split; [reflexivity|]. split; [intros _ E; discriminate E | intros _ [E|E]; discriminate E].
Qed.

Lemma cv_eta v : mk_cv (cv_rsp v) (cv_chunk v) (cv_body v) = v.
Proof. destruct v; reflexivity. Qed.

Lemma rp_parse_done_valid L q buf q1 rest : rp_parse L q buf = (q1, rest, Done) -> rp_valid q1 = true.
Proof.
  unfold rp_parse.
  destruct (if sl_valid (rp_line q) then (rp_line q, buf, Done) else sl_parse L (rp_line q) buf) as [[l1 b1] r1].
  destruct r1; try (intros H; inversion H; fail).
  destruct (if hd_valid (rp_headers q) then (rp_headers q, b1, Done) else hd_parse L (rp_headers q) b1) as [[h1 b2] r2].
  destruct r2; intros H; inversion H; reflexivity.
Qed.

(* response_receiver::receive *)
Theorem creceive_app cfg v a b v1 ra r : cv_ok v -> cframed_call cfg v a = true -> creceive cfg v a = (v1, ra, r) ->
  (ra <> [] -> creceive cfg v (a ++ b) = (v1, ra ++ b, r)) /\
  (ra = [] -> r = RX_INCOMPLETE -> creceive cfg v (a ++ b) = creceive cfg v1 b) /\
  (ra = [] -> r = RX_VALID \/ r = RX_CHUNK -> creceive cfg v (a ++ b) = (v1, b, r)).
Proof.
  intros [Hq Hc] Hfr H. rewrite creceive_unfold in H. rewrite (creceive_unfold cfg v (a ++ b)). unfold cframed_call in Hfr. cbv zeta in H |- *.
  destruct (rp_valid (cv_rsp v)) eqn:Ev; cbn [negb] in *.
  - destruct (cbody_app cfg false v (cv_rsp v) a b v1 ra r Hc Hfr H) as [G1 [G2 G3]].
    split; [exact G1|]. split; [|exact G3]. intros E1 E2. destruct (G2 E1 E2) as [Hrsp G]. rewrite G.
    rewrite creceive_unfold. cbv zeta. rewrite Hrsp, Ev. cbn [negb]. reflexivity.
  - rewrite (rp_parse_app (cc_lim cfg) _ a b Hq).
    destruct (rp_parse (cc_lim cfg) (cv_rsp v) a) as [[q1 b1] r1] eqn:Ep.
    pose proof (rp_parse_flags _ _ _ _ _ _ Ev Ep) as Hfl.
    destruct r1.
    + destruct (cbody_app cfg true v q1 b1 b v1 ra r Hc Hfr H) as [G1 [G2 G3]].
      split; [exact G1|]. split; [|exact G3]. intros E1 E2. destruct (G2 E1 E2) as [Hrsp G]. rewrite G.
      rewrite creceive_unfold. cbv zeta. rewrite Hrsp, Hfl. cbn [negb]. reflexivity.
    + destruct Hfl as [-> Hv1]. cbn [nonempty orb] in H.
      destruct (sl_fail (rp_line q1) || hd_fail (rp_headers q1)) eqn:Ef.
      * inversion H; subst. split; [intros E; contradiction|]. split; [intros _ E; discriminate E | intros _ [E|E]; discriminate E].
      * inversion H; subst. clear H. split; [intros E; contradiction|]. split; [|intros _ [E|E]; discriminate E].
        intros _ _. rewrite creceive_unfold. cbv zeta. cbn [cv_rsp cv_chunk cv_body]. rewrite Hv1. reflexivity.
    + rewrite <- Bool.orb_assoc in H |- *. rewrite Hfl, !Bool.orb_true_r in H |- *. inversion H; subst.
      split; [intros _; reflexivity|]. split; [intros _ E; discriminate E | intros _ [E|E]; discriminate E].
Qed.

(* ---- the invariant in every reachable client state ---- *)
Lemma rp_parse_ok L q buf q1 rest r : rp_ok q -> rp_parse L q buf = (q1, rest, r) -> rp_ok q1.
Proof.
  unfold rp_ok, rp_parse. intros Hok.
  destruct (if sl_valid (rp_line q) then (rp_line q, buf, Done) else sl_parse L (rp_line q) buf) as [[l1 b1] r1].
  destruct r1; try (intros H; inversion H; subst; exact Hok).
  destruct (hd_valid (rp_headers q)) eqn:Ev.
  - intros H; inversion H; subst. exact Hok.
  - destruct (hd_parse L (rp_headers q) b1) as [[h1 b2] r2] eqn:Eh.
    pose proof (hd_parse_ok L _ _ _ _ _ Hok Eh) as H1. destruct r2; intros H; inversion H; subst; exact H1.
Qed.

Lemma cv_ok_init cfg : cv_ok (cv_init cfg).
Proof. split; exact fl_ok_init. Qed.
Lemma cv_ok_clear v : cv_ok (cv_clear v).
Proof. split; exact fl_ok_init. Qed.

Lemma creceive_ok cfg v buf v1 rest r : cv_ok v -> creceive cfg v buf = (v1, rest, r) -> cv_ok v1.
Proof.
  intros [Hq Hc]. rewrite creceive_unfold. cbv zeta.
  destruct (if negb (rp_valid (cv_rsp v)) then rp_parse (cc_lim cfg) (cv_rsp v) buf else (cv_rsp v, buf, Done)) as [[q1 b1] r1] eqn:Ep.
  assert (Hq1 : rp_ok q1).
  { destruct (negb (rp_valid (cv_rsp v))); [exact (rp_parse_ok _ _ _ _ _ _ Hq Ep) | inversion Ep; subst; exact Hq]. }
  destruct r1.
  - unfold cbody. cbv zeta. cbn [cv_rsp cv_chunk cv_body].
    destruct (negb (hd_is_chunked (rp_headers q1))).
    + destruct (hd_content_length (rp_headers q1)); [|intros H; inversion H; subst; apply cv_ok_clear].
      repeat match goal with |- context [if ?c then _ else _] => destruct c end;
        intros H; inversion H; subst; try apply cv_ok_clear; split; cbn; assumption.
    + set (k0 := if rc_valid (cv_chunk v) then rc_clear (cv_chunk v) else cv_chunk v).
      assert (Hok0 : rc_ok k0) by (unfold k0; destruct (rc_valid (cv_chunk v)); [exact fl_ok_init | exact Hc]).
      destruct (negb (rp_valid (cv_rsp v))); [intros H; inversion H; subst; split; cbn; assumption|].
      destruct (rc_parse (cc_lim cfg) k0 b1) as [[k1 b2] r2] eqn:Er. pose proof (rc_parse_ok _ _ _ _ _ _ Hok0 Er) as Hk1.
      repeat match goal with |- context [if ?c then _ else _] => destruct c end;
        intros H; inversion H; subst; try apply cv_ok_clear; split; cbn; assumption.
  - match goal with |- context [if ?c then _ else _] => destruct c end; intros H; inversion H; subst; [apply cv_ok_clear | split; cbn; assumption].
  - match goal with |- context [if ?c then _ else _] => destruct c end; intros H; inversion H; subst; [apply cv_ok_clear | split; cbn; assumption].
Qed.

Lemma cdispatch_ok v r : cv_ok v -> cv_ok (fst (cdispatch v r)).
Proof.
  intros Hok. unfold cdispatch. destruct r; cbn [fst]; try exact Hok; try apply cv_ok_clear.
  - destruct (hd_is_chunked (rp_headers (cv_rsp v))); [exact Hok | apply cv_ok_clear].
  - destruct (rc_is_last (cv_chunk v)); [apply cv_ok_clear | exact Hok].
Qed.

Lemma crx_loop_ok cfg : forall fuel v buf, cv_ok v -> cv_ok (fst (fst (fst (crx_loop fuel cfg v buf)))).
Proof.
  induction fuel as [|fuel IH]; intros v buf Hok; destruct buf as [|c t]; cbn [crx_loop fst]; try exact Hok.
  destruct (creceive cfg v (c :: t)) as [[v1 rest] r] eqn:Er. pose proof (creceive_ok _ _ _ _ _ _ Hok Er) as H1.
  pose proof (cdispatch_ok v1 r H1) as H2. destruct (cdispatch v1 r) as [v2 evs]. cbn [fst] in H2.
  destruct r; try (specialize (IH v2 rest H2); destruct (crx_loop fuel cfg v2 rest) as [[[v3 e3] c3] o3]; exact IH); exact H2.
Qed.

Lemma crx_loop_more_fuel cfg : forall n v buf v' e c, crx_loop n cfg v buf = (v', e, c, false) ->
  forall k, crx_loop (n + k) cfg v buf = (v', e, c, false).
Proof.
  induction n as [|n IH]; intros v buf v' e c H k.
  - destruct buf; cbn [crx_loop] in H; [|inversion H]. inversion H; subst. destruct (0 + k)%nat; reflexivity.
  - destruct buf as [|d t]; [cbn [crx_loop] in H |- *; exact H|].
    cbn [Nat.add crx_loop] in H |- *. destruct (creceive cfg v (d :: t)) as [[w rest] r].
    destruct (cdispatch w r) as [w2 evs].
    destruct r; try exact H;
      (destruct (crx_loop n cfg w2 rest) as [[[v3 e3] c3] o3] eqn:El; inversion H; subst;
       rewrite (IH _ _ _ _ _ El k); reflexivity).
Qed.

Lemma crx_loop_calls_nonempty cfg n v x t v' e : crx_loop n cfg v (x :: t) = (v', e, [], false) -> False.
Proof.
  destruct n; cbn [crx_loop]; [intros H; inversion H|].
  destruct (creceive cfg v (x :: t)) as [[w rest] r]. destruct (cdispatch w r) as [w2 evs].
  destruct r; try (intros H; inversion H; fail); destruct (crx_loop n cfg w2 rest) as [[[a1 a2] a3] a4]; intros H; inversion H.
Qed.

Fixpoint cloop_framed (fuel : nat) (cfg : ccfg) (v : creceiver) (buf : str) : bool :=
  match buf with
  | [] => true
  | _ :: _ =>
      match fuel with
      | O => true
      | S fuel' =>
          let '(v1, rest, r) := creceive cfg v buf in
          cframed_call cfg v buf &&
          match r with
          | RX_INVALID | RX_UB => true
          | _ => cloop_framed fuel' cfg (fst (cdispatch v1 r)) rest
          end
      end
  end.

(* any read boundary: the client's loop over a ++ b delivers what the loop over a followed by the loop over b
   delivers, and ends in the same state *)
Theorem crx_loop_cut cfg : forall n v a b v1 e1 c1 m v2 e2 c2,
  cv_ok v ->
  crx_loop n cfg v a = (v1, e1, c1, false) -> ends_well c1 -> no_reject c1 -> cloop_framed n cfg v a = true ->
  crx_loop m cfg v1 b = (v2, e2, c2, false) ->
  exists c, crx_loop (n + m) cfg v (a ++ b) = (v2, e1 ++ e2, c, false).
Proof.
  induction n as [|n IH]; intros v a b v1 e1 c1 m v2 e2 c2 Hok Ha Hend Hnr Hfr Hb.
  - destruct a; cbn [crx_loop] in Ha; inversion Ha; subst. destruct Hend as [pre [r [k [E _]]]]. destruct pre; discriminate.
  - destruct a as [|d t].
    { cbn [crx_loop] in Ha. inversion Ha; subst. destruct Hend as [pre [r [k [E _]]]]. destruct pre; discriminate. }
    pose proof Ha as Ha0.
    cbn [crx_loop] in Ha. cbn [cloop_framed] in Hfr. destruct (creceive cfg v (d :: t)) as [[w rest] r] eqn:Er.
    apply Bool.andb_true_iff in Hfr. destruct Hfr as [Hfc Hfr].
    pose proof (creceive_ok _ _ _ _ _ _ Hok Er) as Hw.
    destruct (creceive_app cfg v (d :: t) b w rest r Hok Hfc Er) as [G1 [G2 G3]].
    pose proof (cdispatch_ok w r Hw) as Hw2.
    destruct (cdispatch w r) as [w2 evs] eqn:Ed. cbn [fst] in Hw2, Hfr.
    assert (Hr : r <> RX_INVALID /\ r <> RX_UB).
    { destruct r; try (split; discriminate); exfalso; inversion Ha; subst;
        (destruct (Hnr _ _ (or_introl eq_refl)) as [X Y]; congruence). }
    destruct Hr as [Hr1 Hr2].
    assert (Hrec : exists v3 e3 c3, crx_loop n cfg w2 rest = (v3, e3, c3, false) /\ v1 = v3 /\ e1 = evs ++ e3 /\
                   c1 = (r, nlen (d :: t) - nlen rest) :: c3).
    { destruct (crx_loop n cfg w2 rest) as [[[v3 e3] c3] o3] eqn:El.
      destruct r; try congruence; inversion Ha; subst; eexists _, _, _; repeat split; reflexivity. }
    destruct Hrec as [v3 [e3 [c3 [El [Ev [Ee Ec]]]]]]. subst v1 e1 c1.
    destruct rest as [|x rest'].
    + assert (Hc3 : v3 = w2 /\ e3 = [] /\ c3 = []) by (destruct n; cbn [crx_loop] in El; inversion El; auto).
      destruct Hc3 as [-> [-> ->]].
      destruct Hend as [pre [r0 [k [E Hkind]]]]. assert (r0 = r).
      { destruct pre as [|p pre']; [inversion E; reflexivity|]. inversion E. destruct pre'; discriminate. }
      subst r0. rewrite app_nil_r.
      destruct Hkind as [Hk|Hk].
      * (* ran out of data *)
        subst r. cbn [cdispatch] in Ed. inversion Ed; subst. clear Ed. cbn [app].
        destruct b as [|y b'].
        -- cbn [crx_loop] in Hb. destruct m; cbn [crx_loop] in Hb; inversion Hb; subst;
             repeat rewrite app_nil_r in Ha0; repeat rewrite app_nil_r; eexists; apply (crx_loop_more_fuel cfg (S n) v (d :: t) _ _ _ Ha0).
        -- destruct m as [|m]; [cbn [crx_loop] in Hb; inversion Hb|].
           replace (S n + S m)%nat with (S (m + S n))%nat by lia.
           change ((d :: t) ++ y :: b') with (d :: (t ++ y :: b')). cbn [crx_loop].
           change (d :: t ++ y :: b') with ((d :: t) ++ y :: b'). rewrite (G2 eq_refl eq_refl).
           cbn [crx_loop] in Hb. destruct (creceive cfg w2 (y :: b')) as [[w' rest'] r'] eqn:Er'.
           destruct (cdispatch w' r') as [w2' evs'].
           destruct r'; try (inversion Hb; subst; eexists; reflexivity);
             (destruct (crx_loop m cfg w2' rest') as [[[v4 e4] c4] o4] eqn:El4; inversion Hb; subst;
              rewrite (crx_loop_more_fuel cfg m _ _ _ _ _ El4 (S n)); eexists; reflexivity).
      * (* a delivery with the last byte of the read *)
        pose proof (G3 eq_refl Hk) as Ge.
        destruct b as [|y b'].
        -- cbn [crx_loop] in Hb. destruct m; cbn [crx_loop] in Hb; inversion Hb; subst;
             repeat rewrite app_nil_r in Ha0; repeat rewrite app_nil_r; eexists; apply (crx_loop_more_fuel cfg (S n) v (d :: t) _ _ _ Ha0).
        -- change ((d :: t) ++ y :: b') with (d :: (t ++ y :: b')). cbn [Nat.add crx_loop].
           change (d :: t ++ y :: b') with ((d :: t) ++ y :: b'). rewrite Ge, Ed.
           replace (n + m)%nat with (m + n)%nat by lia.
           rewrite (crx_loop_more_fuel cfg m _ _ _ _ _ Hb n).
           exists ((r, nlen ((d :: t) ++ y :: b') - nlen (y :: b')) :: c2).
           destruct r; try congruence; reflexivity.
    + assert (Hne : x :: rest' <> []) by discriminate.
      assert (Hend3 : ends_well c3).
      { destruct Hend as [pre [r0 [k [E Hk]]]]. destruct pre as [|p pre'].
        - inversion E; subst. exfalso. exact (crx_loop_calls_nonempty _ _ _ _ _ _ _ El).
        - inversion E; subst. exists pre', r0, k. split; [reflexivity | exact Hk]. }
      assert (Hnr3 : no_reject c3) by (intros r0 n0 Hin; apply (Hnr r0 n0); right; exact Hin).
      assert (Hfr3 : cloop_framed n cfg w2 (x :: rest') = true) by (destruct r; try congruence; exact Hfr).
      destruct (IH w2 (x :: rest') b v3 e3 c3 m v2 e2 c2 Hw2 El Hend3 Hnr3 Hfr3 Hb) as [c Hc].
      change ((d :: t) ++ b) with (d :: (t ++ b)). cbn [Nat.add crx_loop].
      change (d :: t ++ b) with ((d :: t) ++ b). rewrite (G1 Hne), Ed.
      exists ((r, nlen ((d :: t) ++ b) - nlen ((x :: rest') ++ b)) :: c).
      destruct r; try congruence; rewrite Hc, <- app_assoc; reflexivity.
Qed.

Fixpoint ccuts_ok (cfg : ccfg) (v : creceiver) (frags : list str) : Prop :=
  match frags with
  | [] => True
  | f :: t =>
      let '(v1, e1, c1, o1) := cread_loop cfg v f in
      o1 = false /\ ccuts_ok cfg v1 t /\
      (f = [] \/ t = [] \/ (ends_well c1 /\ no_reject c1 /\ cloop_framed (loop_fuel f) cfg v f = true))
  end.

(* however a response stream is cut into reads, the reads together deliver to the client application what the whole
   stream delivers in one read, in the same order, and leave the receiver in the same state *)
Theorem cfeed_is_stream cfg : forall frags v, cv_ok v -> ccuts_ok cfg v frags ->
  exists N c, forall k,
    crx_loop (N + k) cfg v (concat frags) =
    (fst (fst (fst (cfeed cfg v frags))), snd (fst (fst (cfeed cfg v frags))), c, false).
Proof.
  induction frags as [|f t IH]; intros v Hok Hc.
  - exists 0%nat, []. intros k. cbn [concat cfeed fst snd]. destruct k; reflexivity.
  - cbn [ccuts_ok] in Hc. cbn [cfeed concat]. unfold cread_loop in *.
    destruct (crx_loop (loop_fuel f) cfg v f) as [[[v1 e1] c1] o1] eqn:El.
    destruct Hc as [-> [Hct Hcase]].
    pose proof (crx_loop_ok cfg (loop_fuel f) v f Hok) as Hok1. rewrite El in Hok1. cbn [fst] in Hok1.
    destruct (IH v1 Hok1 Hct) as [N [c HN]].
    destruct (cfeed cfg v1 t) as [[[v2 e2] c2] o2] eqn:Ef. cbn [fst snd] in *.
    destruct Hcase as [->|[->|[Hew [Hnr Hfr]]]].
    + cbn [crx_loop] in El. assert (v1 = v /\ e1 = []) by (destruct (loop_fuel []); cbn [crx_loop] in El; inversion El; auto).
      destruct H as [-> ->]. exists N, c. exact HN.
    + cbn [cfeed] in Ef. inversion Ef; subst. cbn [concat]. rewrite !app_nil_r.
      exists (loop_fuel f), c1. intros k. exact (crx_loop_more_fuel cfg _ _ _ _ _ _ El k).
    + specialize (HN 0%nat). rewrite Nat.add_0_r in HN.
      destruct (crx_loop_cut cfg _ v f (concat t) v1 e1 c1 N v2 e2 c Hok El Hew Hnr Hfr HN) as [c' Hc'].
      exists (loop_fuel f + N)%nat, c'. intros k. exact (crx_loop_more_fuel cfg _ _ _ _ _ _ Hc' k).
Qed.
