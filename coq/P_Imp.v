(* P_Imp.v — the hand-written model of request_line::parse_char (M_Parse.rl_parse_char) computes, for every state,
   every character and every limit configuration, exactly what the body of the C++ function computes - the body as
   translated from clang's AST on this run (Gen_Parse.v), under the meaning of statements defined in M_Imp.v. *)
From Via Require Import M_Char M_Parse M_Imp Gen_Parse.
From Coq Require Import List NArith Bool Lia.
Import ListNotations.
Local Open Scope N_scope.
Arguments nlen : simpl never.
Arguments snoc : simpl never.

Definition rl_store (r : req_line) : store :=
  mk_store (rl_st_index (rl_state r)) [rl_method r; rl_uri r] [rl_ws r; rl_major r; rl_minor r; b2n (rl_valid r); b2n (rl_fail r)].

Definition rl_lim (L : limits) (k : nat) : N := nth k [max_uri L; max_method L; max_ws L] 0.

Definition rl_src (L : limits) : stmt := if strict_crlf L then rl_src_strict else rl_src_lax.

Ltac flags := repeat match goal with
  | H : context [1 =? 0] |- _ => change (1 =? 0) with false in H
  | H : context [0 =? 0] |- _ => change (0 =? 0) with true in H
  end; cbn [negb andb orb] in *; congruence.

Ltac norm := cbn -[N.ltb N.eqb N.leb N.add N.mul N.sub nlen snoc isupper isblank isdigit isxdigit is_end_of_line is_token tolower size_of_hex digit_val].
Ltac norm_all := cbn -[N.ltb N.eqb N.leb N.add N.mul N.sub nlen snoc isupper isblank isdigit isxdigit is_end_of_line is_token tolower size_of_hex digit_val] in *.

Ltac split_one := match goal with |- context [if ?b then _ else _] => destruct b eqn:? end.

Ltac split_ifs := repeat match goal with |- context [if ?b then _ else _] => destruct b eqn:? end.

Theorem rl_parse_char_is_the_source L r c :
  run_body (rl_lim L) c (rl_src L) (rl_store r) = (rl_store (fst (rl_parse_char L r c)), snd (rl_parse_char L r c)).
Proof.
  unfold rl_src, rl_parse_char, expect_char. destruct r as [m u ma mi st ws v f]. cbn [rl_state rl_method rl_uri rl_major rl_minor rl_ws].
  destruct (strict_crlf L) eqn:Es; destruct st;
    unfold run_body, rl_src_strict, rl_src_lax, rl_store;
    norm;
    unfold rl_lim; cbn [nth];
    split_ifs; norm; try reflexivity;
    try (cbn [negb andb orb] in *; congruence).
Qed.

(* ---- response_line ---- *)

Definition sl_store (r : rsp_line) : store :=
  mk_store (sl_st_index (sl_state r)) [sl_reason r] [sl_ws r; sl_major r; sl_minor r; sl_status r; b2n (sl_status_read r); b2n (sl_valid r); b2n (sl_fail r)].
Definition sl_lim (L : limits) (k : nat) : N := nth k [max_status L; max_reason L; max_ws L] 0.
Definition sl_src (L : limits) : stmt := if strict_crlf L then sl_src_strict else sl_src_lax.

Theorem sl_parse_char_is_the_source L r c :
  run_body (sl_lim L) c (sl_src L) (sl_store r) = (sl_store (fst (sl_parse_char L r c)), snd (sl_parse_char L r c)).
Proof.
  unfold sl_src, sl_parse_char, sl_expect, sl_cr_case. destruct r as [st rs ma mi s ws sr v f]. cbn [sl_state sl_status sl_reason sl_major sl_minor sl_ws sl_status_read].
  destruct (strict_crlf L) eqn:Es; destruct s; destruct sr;
    unfold run_body, sl_src_strict, sl_src_lax, sl_store, b2n;
    norm;
    unfold sl_lim, digit_val; cbn [nth];
    repeat (split_ifs; norm); try reflexivity;
    try (cbn [negb andb orb] in *; congruence); try (norm_all; flags).
Qed.

(* ---- field_line ---- *)
Definition fl_store (f : field) : store :=
  mk_store (fl_st_index (fl_state f)) [fl_name f; fl_value f] [fl_length f; fl_ws f; b2n (fl_fail f)].
Definition fl_lim (L : limits) (k : nat) : N := nth k [max_line L; max_ws L] 0.
Definition fl_src (L : limits) : stmt := if strict_crlf L then fl_src_strict else fl_src_lax.

Theorem fl_parse_char_is_the_source L f c :
  run_body (fl_lim L) c (fl_src L) (fl_store f) = (fl_store (fst (fl_parse_char L f c)), snd (fl_parse_char L f c)).
Proof.
  unfold fl_src, fl_parse_char, fl_value_case. destruct f as [nm vl len ws s fa]. cbn [fl_state fl_name fl_value fl_length fl_ws fl_fail].
  destruct (strict_crlf L) eqn:Es; destruct s;
    unfold run_body, fl_src_strict, fl_src_lax, fl_store, fl_set_state; norm; unfold fl_lim; cbn [nth];
    (* the length check in front of the switch decides which case the switch takes *)
    destruct (max_line L <? len + 1) eqn:Elen; norm;
    repeat (split_ifs; norm); try reflexivity;
    try (cbn [negb andb orb] in *; congruence); try (norm_all; flags).
Qed.


(* ---- chunk_header ---- *)
Definition ck_store (k : chunk_hdr) : store :=
  mk_store (ck_st_index (ck_state k)) [ck_hex k; ck_ext k] [ck_length k; ck_ws k; ck_size k; b2n (ck_size_read k); ck_max k; b2n (ck_valid k); b2n (ck_fail k)].
Definition ck_lim (L : limits) (k : nat) : N := nth k [max_line L; max_ws L] 0.
Definition ck_src (L : limits) : stmt := if strict_crlf L then ck_src_strict else ck_src_lax.

(* the length check in front of the switch, for any rest of the body *)
Lemma run_body_length_check lim c e rest st strs n nums :
  run_body lim c (SSeq (SIf (BCmp CGt (NPreInc 0%nat) (NLim 0%nat)) (SState e) SSkip) rest) (mk_store st strs (n :: nums)) =
  if lim 0%nat <? n + 1 then run_body lim c rest (mk_store e strs (n + 1 :: nums))
  else run_body lim c rest (mk_store st strs (n + 1 :: nums)).
Proof.
  unfold run_body. cbn [exec beval neval cmp_eval get_num set_num s_nums s_strs s_state nth set_nth set_state].
  destruct (lim 0%nat <? n + 1); reflexivity.
Qed.

Theorem ck_parse_char_is_the_source L k c :
  run_body (ck_lim L) c (ck_src L) (ck_store k) = (ck_store (fst (ck_parse_char L k c)), snd (ck_parse_char L k c)).
Proof.
  unfold ck_src, ck_parse_char, ck_size_case, ck_ext_case. destruct k as [mx sz len ws hx ex s sr v f]. cbn [ck_state ck_max ck_size ck_length ck_ws ck_hex ck_ext ck_size_read].
  destruct (strict_crlf L) eqn:Es; unfold ck_src_strict, ck_src_lax, ck_store; cbn [s_nums];
    rewrite run_body_length_check; unfold ck_lim at 1; cbn [nth];
    destruct (max_line L <? len + 1) eqn:Elen; destruct s; destruct sr;
    cbv delta [run_body] beta; norm; unfold ck_lim; cbn [nth]; change MAX_SIZE_DIGITS with 16;
    repeat (split_one; norm); try reflexivity;
    try (cbn [negb andb orb] in *; congruence); try (norm_all; flags).
Qed.

(* ---- clear(): what a parser is reset to between messages is what the model starts the next message from ---- *)
Theorem rl_clear_is_the_source lim c r : exec lim c rl_clear_src (rl_store r) = (ONormal, rl_store rl_init).
Proof. destruct r; reflexivity. Qed.
Theorem sl_clear_is_the_source lim c r : exec lim c sl_clear_src (sl_store r) = (ONormal, sl_store sl_init).
Proof. destruct r; reflexivity. Qed.
Theorem fl_clear_is_the_source lim c f : exec lim c fl_clear_src (fl_store f) = (ONormal, fl_store fl_init).
Proof. destruct f; reflexivity. Qed.
(* chunk_header::clear keeps the configured maximum chunk size and resets everything else *)
Theorem ck_clear_is_the_source lim c k : exec lim c ck_clear_src (ck_store k) = (ONormal, ck_store (ck_init (ck_max k))).
Proof. destruct k; reflexivity. Qed.
