(* P_Imp.v — the character-level functions of the four line parsers are the translated source: gathers P_ImpR.v (request
   line), P_ImpS.v (status line), P_ImpF.v (field line) and P_ImpK.v (chunk-size line), which are compiled in parallel. *)
From Via Require Export P_Imp0 P_ImpR P_ImpS P_ImpF P_ImpK.
