(* P_Conc.v — what the locking protocol guarantees under every schedule. *)
From Coq Require Import List Bool Arith ZArith Lia.
From Via Require Import M_Locks M_Conc.
Import ListNotations.

Lemma upd_same {A} (f : nat -> A) x v : upd f x v x = v.
Proof. unfold upd. rewrite Nat.eqb_refl. reflexivity. Qed.
Lemma upd_other {A} (f : nat -> A) x v y : y <> x -> upd f x v y = f y.
Proof. unfold upd. intros H. destruct (Nat.eqb_spec y x); [contradiction|reflexivity]. Qed.

Lemma holds_in b h : holds b h = true <-> exists k, In (b, k) h.
Proof.
  unfold holds. rewrite existsb_exists. split.
  - intros [[b' k] [Hin He]]. simpl in He. apply Nat.eqb_eq in He. subst. exists k. exact Hin.
  - intros [k Hin]. exists (b, k). split; [exact Hin|]. simpl. apply Nat.eqb_refl.
Qed.

Lemma holds_ex_in b h : holds_ex b h = true <-> In (b, Ex) h.
Proof.
  unfold holds_ex. rewrite existsb_exists. split.
  - intros [[b' k] [Hin He]]. simpl in He. apply andb_true_iff in He. destruct He as [H1 H2].
    apply Nat.eqb_eq in H1. subst. destruct k; [discriminate|exact Hin].
  - intros Hin. exists (b, Ex). split; [exact Hin|]. simpl. rewrite Nat.eqb_refl. reflexivity.
Qed.

Lemma in_drop b' k b h : In (b', k) (drop b h) <-> b' <> b /\ In (b', k) h.
Proof.
  unfold drop. rewrite filter_In. simpl. split.
  - intros [H1 H2]. split; [|exact H1]. intros ->. rewrite Nat.eqb_refl in H2. discriminate.
  - intros [H1 H2]. split; [exact H2|]. destruct (Nat.eqb_spec b' b); [contradiction|reflexivity].
Qed.

Lemma holds_drop b' b h : holds b' (drop b h) = true -> b' <> b /\ holds b' h = true.
Proof.
  rewrite !holds_in. intros [k H]. apply in_drop in H. destruct H as [H1 H2]. split; [exact H1|exists k; exact H2].
Qed.

Lemma in_not_mine t' k t l : In (t', k) (filter (not_mine t) l) <-> t' <> t /\ In (t', k) l.
Proof.
  rewrite filter_In. unfold not_mine. simpl. split.
  - intros [H1 H2]. split; [|exact H1]. intros ->. rewrite Nat.eqb_refl in H2. discriminate.
  - intros [H1 H2]. split; [exact H2|]. destruct (Nat.eqb_spec t' t); [contradiction|reflexivity].
Qed.

Lemma ascending_not_held b h : forallb (fun e => Nat.ltb (fst e) b) h = true -> holds b h = false.
Proof.
  intros H. destruct (holds b h) eqn:E; [|reflexivity]. apply holds_in in E. destruct E as [k Hin].
  rewrite forallb_forall in H. specialize (H _ Hin). simpl in H. apply Nat.ltb_lt in H. lia.
Qed.

Record Inv (s : cstate) : Prop := {
  inv_L : forall b t k, In (t, k) (c_locks s b) <-> In (b, k) (t_held (c_thr s t));
  inv_X : forall b t t' k', In (t, Ex) (c_locks s b) -> In (t', k') (c_locks s b) -> t' = t /\ k' = Ex;
  inv_W : forall t, wl (t_held (c_thr s t)) (t_rel (c_thr s t)) (t_cur (c_thr s t)) = true;
  inv_T : forall t, Forall (fun o => wl [] false (o_acts o) = true) (t_todo (c_thr s t));
  inv_V : forall t b d, t_view (c_thr s t) b = Some d -> holds b (t_held (c_thr s t)) = true -> c_data s b = d;
  inv_U : forall t b d, t_rel (c_thr s t) = false -> t_view (c_thr s t) b = Some d ->
                        holds b (t_held (c_thr s t)) = true
}.

Lemma init_inv s : cinit s -> Inv s.
Proof.
  intros [HL HT]. constructor.
  - intros b t k. rewrite HL. destruct (HT t) as [_ [Hh _]]. rewrite Hh. simpl. tauto.
  - intros b t t' k' H. rewrite HL in H. destruct H.
  - intros t. destruct (HT t) as [Hc [Hh _]]. rewrite Hc, Hh. reflexivity.
  - intros t. destruct (HT t) as [_ [_ [_ H]]]. exact H.
  - intros t b d H. destruct (HT t) as [_ [_ [Hv _]]]. rewrite Hv in H. discriminate.
  - intros t b d _ H. destruct (HT t) as [_ [_ [Hv _]]]. rewrite Hv in H. discriminate.
Qed.

Ltac thr u t := destruct (Nat.eq_dec u t) as [->|?N];
  [rewrite ?upd_same in * | rewrite ?(upd_other _ t _ u) in * by assumption]; cbn [t_cur t_wf t_view t_held t_rel t_todo] in *.

Lemma cstep_inv s t s' : Inv s -> cstep s t = Some s' -> Inv s'.
Proof.
  intros I H. unfold cstep in H.
  pose proof (inv_W _ I t) as W.
  destruct (t_cur (c_thr s t)) as [|a r] eqn:Hcur.
  - (* the next operation starts *)
    destruct (t_todo (c_thr s t)) as [|o r'] eqn:Htodo; [discriminate|]. inversion H; subst s'; clear H.
    simpl in W. destruct (t_held (c_thr s t)) eqn:Hh; [|discriminate].
    pose proof (inv_T _ I t) as T. rewrite Htodo in T. inversion T as [|? ? To Tr]; subst.
    constructor; cbn [c_data c_locks c_thr].
    + intros b u k. thr u t; [rewrite <- Hh|]; apply (inv_L _ I).
    + apply (inv_X _ I).
    + intros u. thr u t; [exact To | apply (inv_W _ I)].
    + intros u. thr u t; [exact Tr | apply (inv_T _ I)].
    + intros u b d. thr u t; [discriminate | apply (inv_V _ I)].
    + intros u b d. thr u t; [discriminate | apply (inv_U _ I)].
  - destruct a as [k b|b|b|b].
    + (* acquire *)
      destruct (compatible k (c_locks s b)) eqn:Hc; [|discriminate]. inversion H; subst s'; clear H.
      cbn [wl] in W. apply andb_true_iff in W. destruct W as [W W3]. apply andb_true_iff in W. destruct W as [W1 W2].
      apply negb_true_iff in W1. pose proof (ascending_not_held _ _ W2) as Hnh.
      constructor; cbn [c_data c_locks c_thr].
      * intros b' u k'. unfold upd at 1. destruct (Nat.eqb_spec b' b) as [->|Nb].
        -- thr u t.
           ++ simpl. rewrite (inv_L _ I b t k'). split; intros [E|E]; try (inversion E; subst; left; reflexivity); right; exact E.
           ++ simpl. rewrite <- (inv_L _ I b u k'). split; [intros [E|E]; [inversion E; subst; contradiction|exact E] | intros E; right; exact E].
        -- thr u t.
           ++ simpl. rewrite (inv_L _ I b' t k'). split; [intros E; right; exact E | intros [E|E]; [inversion E; subst; contradiction | exact E]].
           ++ apply (inv_L _ I).
      * intros b' u u' k'. unfold upd. destruct (Nat.eqb_spec b' b) as [->|Nb]; [|apply (inv_X _ I)].
        destruct k.
        -- (* shared: no exclusive holder can be there *)
           simpl in Hc. rewrite forallb_forall in Hc. intros [E|E]; [inversion E|].
           specialize (Hc _ E). discriminate.
        -- simpl in Hc. destruct (c_locks s b) eqn:El; [|discriminate].
           intros [E|[]] [E'|[]]. inversion E; inversion E'; subst. split; reflexivity.
      * intros u. thr u t; [exact W3 | apply (inv_W _ I)].
      * intros u. thr u t; apply (inv_T _ I).
      * intros u b' d. thr u t; [|apply (inv_V _ I)].
        intros Hv Hh. destruct (Nat.eq_dec b' b) as [->|Nb].
        -- pose proof (inv_U _ I t b d W1 Hv) as Hu. rewrite Hnh in Hu. discriminate.
        -- apply (inv_V _ I t b' d Hv). apply holds_in in Hh. destruct Hh as [k' [E|E]]; [inversion E; subst; contradiction|].
           apply holds_in. exists k'. exact E.
      * intros u b' d. thr u t; [|apply (inv_U _ I)].
        intros _ Hv. pose proof (inv_U _ I t b' d W1 Hv) as Hu. apply holds_in in Hu. destruct Hu as [k' Hu].
        apply holds_in. exists k'. right. exact Hu.
    + (* release *)
      inversion H; subst s'; clear H.
      cbn [wl] in W. apply andb_true_iff in W. destruct W as [W1 W2].
      constructor; cbn [c_data c_locks c_thr].
      * intros b' u k'. unfold upd at 1. destruct (Nat.eqb_spec b' b) as [->|Nb].
        -- rewrite in_not_mine. thr u t.
           ++ rewrite in_drop. split; intros [E _]; contradiction.
           ++ rewrite (inv_L _ I b u k'). tauto.
        -- thr u t; [|apply (inv_L _ I)]. rewrite in_drop, (inv_L _ I b' t k'). tauto.
      * intros b' u u' k'. unfold upd. destruct (Nat.eqb_spec b' b) as [->|Nb]; [|apply (inv_X _ I)].
        rewrite !in_not_mine. intros [_ E] [_ E']. apply (inv_X _ I b u u' k' E E').
      * intros u. thr u t; [exact W2 | apply (inv_W _ I)].
      * intros u. thr u t; apply (inv_T _ I).
      * intros u b' d. thr u t; [|apply (inv_V _ I)].
        intros Hv Hh. apply holds_drop in Hh. destruct Hh as [_ Hh]. apply (inv_V _ I t b' d Hv Hh).
      * intros u b' d. thr u t; [discriminate | apply (inv_U _ I)].
    + (* read *)
      inversion H; subst s'; clear H.
      cbn [wl] in W. apply andb_true_iff in W. destruct W as [W1 W2].
      constructor; cbn [c_data c_locks c_thr].
      * intros b' u k'. thr u t; apply (inv_L _ I).
      * apply (inv_X _ I).
      * intros u. thr u t; [exact W2 | apply (inv_W _ I)].
      * intros u. thr u t; apply (inv_T _ I).
      * intros u b' d. thr u t; [|apply (inv_V _ I)].
        unfold upd. destruct (Nat.eqb_spec b' b) as [->|Nb]; [intros E _; inversion E; reflexivity | apply (inv_V _ I)].
      * intros u b' d. thr u t; [|apply (inv_U _ I)].
        unfold upd. destruct (Nat.eqb_spec b' b) as [->|Nb]; [intros _ _; exact W1 | apply (inv_U _ I)].
    + (* write *)
      inversion H; subst s'; clear H.
      cbn [wl] in W. apply andb_true_iff in W. destruct W as [W1 W2].
      assert (Hex : In (t, Ex) (c_locks s b)) by (apply (inv_L _ I), holds_ex_in, W1).
      constructor; cbn [c_data c_locks c_thr].
      * intros b' u k'. thr u t; apply (inv_L _ I).
      * apply (inv_X _ I).
      * intros u. thr u t; [exact W2 | apply (inv_W _ I)].
      * intros u. thr u t; apply (inv_T _ I).
      * intros u b' d. thr u t.
        -- unfold upd. destruct (Nat.eqb_spec b' b) as [->|Nb]; [intros E _; inversion E; reflexivity | apply (inv_V _ I)].
        -- intros Hv Hh. unfold upd. destruct (Nat.eqb_spec b' b) as [->|Nb]; [|apply (inv_V _ I u b' d Hv Hh)].
           exfalso. apply holds_in in Hh. destruct Hh as [k' Hh]. apply (inv_L _ I) in Hh.
           destruct (inv_X _ I b t u k' Hex Hh) as [E _]. contradiction.
      * intros u b' d. thr u t; [|apply (inv_U _ I)].
        unfold upd. destruct (Nat.eqb_spec b' b) as [->|Nb]; [|apply (inv_U _ I)].
        intros _ _. apply holds_in. exists Ex. apply holds_ex_in. exact W1.
Qed.

Lemma csched_inv s t : Inv s -> Inv (csched s t).
Proof. intros I. unfold csched. destruct (cstep s t) eqn:E; [exact (cstep_inv _ _ _ I E) | exact I]. Qed.

Lemma crun_inv sched : forall s, Inv s -> Inv (crun sched s).
Proof.
  induction sched as [|t r IH]; intros s I; [exact I|]. unfold crun in *. cbn [fold_left].
  apply IH, csched_inv, I.
Qed.

(* ---- consequences, for any state satisfying the invariant ---- *)

(* an exclusive holder is alone *)
Lemma inv_exclusive s : Inv s -> forall b t u k, In (b, Ex) (t_held (c_thr s t)) -> In (b, k) (t_held (c_thr s u)) -> u = t.
Proof.
  intros I b t u k H1 H2. apply (inv_L _ I) in H1. apply (inv_L _ I) in H2.
  destruct (inv_X _ I b t u k H1 H2) as [E _]. exact E.
Qed.

(* every access the thread is about to make is covered by a lock it holds *)
Lemma inv_next_access s : Inv s -> forall t r b,
  (t_cur (c_thr s t) = Rd b :: r -> holds b (t_held (c_thr s t)) = true) /\
  (t_cur (c_thr s t) = Wr b :: r -> In (b, Ex) (t_held (c_thr s t))).
Proof.
  intros I t r b. pose proof (inv_W _ I t) as W. split; intros E; rewrite E in W; cbn [wl] in W;
  apply andb_true_iff in W; destruct W as [W _]; [exact W | apply holds_ex_in, W].
Qed.

(* while a thread holds any lock on a bucket, no step of another thread changes that bucket *)
Lemma inv_stable s : Inv s -> forall t u b s', holds b (t_held (c_thr s t)) = true -> u <> t ->
  cstep s u = Some s' -> c_data s' b = c_data s b.
Proof.
  intros I t u b s' Hh Nu H. unfold cstep in H.
  destruct (t_cur (c_thr s u)) as [|a r] eqn:Hcur.
  - destruct (t_todo (c_thr s u)); [discriminate|]. inversion H. reflexivity.
  - destruct a as [k b'|b'|b'|b'].
    + destruct (compatible k (c_locks s b')); [|discriminate]. inversion H. reflexivity.
    + inversion H. reflexivity.
    + inversion H. reflexivity.
    + inversion H. cbn [c_data]. unfold upd. destruct (Nat.eqb_spec b b') as [->|N]; [|reflexivity].
      exfalso. destruct (inv_next_access _ I u r b') as [_ Hw]. specialize (Hw Hcur).
      apply holds_in in Hh. destruct Hh as [k Hh]. apply Nu. symmetry. exact (inv_exclusive _ I b' u t k Hw Hh).
Qed.

(* a write is computed from a view that agrees with the actual contents of every bucket the writer
   holds, and changes nothing but its own bucket: an atomic read-modify-write of the current state *)
Lemma inv_write s : Inv s -> forall t b r s', t_cur (c_thr s t) = Wr b :: r -> cstep s t = Some s' ->
  c_data s' b = t_wf (c_thr s t) b (t_view (c_thr s t)) /\
  (forall b', b' <> b -> c_data s' b' = c_data s b') /\
  (forall b' d, t_view (c_thr s t) b' = Some d -> holds b' (t_held (c_thr s t)) = true -> d = c_data s b').
Proof.
  intros I t b r s' Hc H. unfold cstep in H. rewrite Hc in H. inversion H. cbn [c_data]. repeat split.
  - apply upd_same.
  - intros b' N. apply upd_other, N.
  - intros b' d Hv Hh. symmetry. apply (inv_V _ I t b' d Hv Hh).
Qed.

(* a snapshot: the buckets a thread has read and still holds are, together, the current contents *)
Lemma inv_snapshot s : Inv s -> forall t bs,
  (forall b, In b bs -> holds b (t_held (c_thr s t)) = true /\ t_view (c_thr s t) b <> None) ->
  map (t_view (c_thr s t)) bs = map (fun b => Some (c_data s b)) bs.
Proof.
  intros I t bs H. apply map_ext_in. intros b Hb. destruct (H b Hb) as [Hh Hv].
  destruct (t_view (c_thr s t) b) as [d|] eqn:E; [|contradiction]. rewrite (inv_V _ I t b d E Hh). reflexivity.
Qed.

(* ---- no deadlock ---- *)
Definition want (s : cstate) (t : nat) : option nat :=
  match t_cur (c_thr s t) with Acq _ b :: _ => Some b | _ => None end.

Lemma max_want s : forall N, (exists t b, t < N /\ want s t = Some b) ->
  exists t b, t < N /\ want s t = Some b /\ forall t' b', t' < N -> want s t' = Some b' -> b' <= b.
Proof.
  induction N as [|N IH]; intros [t [b [Ht Hw]]]; [lia|].
  destruct (want s N) as [bN|] eqn:EN.
  - assert (Hdec : (exists t b, t < N /\ want s t = Some b) \/ ~ (exists t b, t < N /\ want s t = Some b)).
    { clear. induction N as [|N IHN]; [right; intros [t [b [H _]]]; lia|].
      destruct IHN as [[t [b [H1 H2]]]|Hn]; [left; exists t, b; split; [lia|exact H2]|].
      destruct (want s N) as [b|] eqn:E; [left; exists N, b; split; [lia|exact E]|].
      right. intros [t [b [H1 H2]]]. destruct (Nat.eq_dec t N) as [->|Nn]; [congruence|].
      apply Hn. exists t, b. split; [lia|exact H2]. }
    destruct Hdec as [Hsome|Hnone].
    + destruct (IH Hsome) as [t0 [b0 [H0 [Hw0 Hmax]]]].
      destruct (le_lt_dec bN b0).
      * exists t0, b0. repeat split; [lia|exact Hw0|]. intros t' b' Ht' Hw'.
        destruct (Nat.eq_dec t' N) as [->|Nn]; [rewrite EN in Hw'; inversion Hw'; subst; lia|].
        apply (Hmax t' b'); [lia|exact Hw'].
      * exists N, bN. repeat split; [lia|exact EN|]. intros t' b' Ht' Hw'.
        destruct (Nat.eq_dec t' N) as [->|Nn]; [rewrite EN in Hw'; inversion Hw'; subst; lia|].
        assert (b' <= b0) by (apply (Hmax t' b'); [lia|exact Hw']). lia.
    + exists N, bN. repeat split; [lia|exact EN|]. intros t' b' Ht' Hw'.
      destruct (Nat.eq_dec t' N) as [->|Nn]; [rewrite EN in Hw'; inversion Hw'; subst; lia|].
      exfalso. apply Hnone. exists t', b'. split; [lia|exact Hw'].
  - destruct (Nat.eq_dec t N) as [->|Nn]; [congruence|].
    assert (HtN : t < N) by lia.
    destruct (IH (ex_intro _ t (ex_intro _ b (conj HtN Hw)))) as [t0 [b0 [H0 [Hw0 Hmax]]]].
    exists t0, b0. repeat split; [lia|exact Hw0|]. intros t' b' Ht' Hw'.
    destruct (Nat.eq_dec t' N) as [->|Nn']; [congruence|]. apply (Hmax t' b'); [lia|exact Hw'].
Qed.

Lemma incompatible_holder k l : compatible k l = false -> exists u k', In (u, k') l.
Proof.
  destruct k; simpl.
  - induction l as [|[u k'] l IH]; [discriminate|]. intros _. exists u, k'. left. reflexivity.
  - destruct l as [|[u k'] l]; [discriminate|]. intros _. exists u, k'. left. reflexivity.
Qed.

Definition enabled (s : cstate) (t : nat) : bool := match cstep s t with Some _ => true | None => false end.

Lemma disabled_wants s t : enabled s t = false -> t_cur (c_thr s t) <> [] ->
  exists k b r, t_cur (c_thr s t) = Acq k b :: r /\ compatible k (c_locks s b) = false.
Proof.
  unfold enabled, cstep. intros H Hc. destruct (t_cur (c_thr s t)) as [|a r]; [contradiction|].
  destruct a as [k b|b|b|b]; try discriminate.
  destruct (compatible k (c_locks s b)) eqn:E; [discriminate|]. exists k, b, r. split; reflexivity || exact E.
Qed.

Lemma held_means_running s : Inv s -> forall t b k, In (b, k) (t_held (c_thr s t)) -> t_cur (c_thr s t) <> [].
Proof.
  intros I t b k H E. pose proof (inv_W _ I t) as W. rewrite E in W. simpl in W.
  destruct (t_held (c_thr s t)); [destruct H | discriminate].
Qed.

Lemma no_deadlock s N : Inv s -> (forall t, N <= t -> t_cur (c_thr s t) = []) ->
  (exists t, t_cur (c_thr s t) <> [] \/ t_todo (c_thr s t) <> []) -> exists u, enabled s u = true.
Proof.
  intros I Hfin [t Ht].
  destruct (existsb (enabled s) (seq 0 N)) eqn:Ee.
  - apply existsb_exists in Ee. destruct Ee as [u [_ Hu]]. exists u. exact Hu.
  - assert (Hdis : forall u, u < N -> enabled s u = false).
    { intros u Hu. destruct (enabled s u) eqn:E; [|reflexivity].
      assert (existsb (enabled s) (seq 0 N) = true) by (apply existsb_exists; exists u; split; [apply in_seq; lia|exact E]).
      congruence. }
    destruct (enabled s t) eqn:Et; [exists t; exact Et|].
    assert (Hct : t_cur (c_thr s t) <> []).
    { destruct Ht as [Ht|Ht]; [exact Ht|]. intros E. unfold enabled, cstep in Et. rewrite E in Et.
      destruct (t_todo (c_thr s t)); [contradiction|discriminate]. }
    assert (HtN : t < N) by (destruct (le_lt_dec N t) as [Hl|Hl]; [specialize (Hfin t Hl); contradiction|exact Hl]).
    destruct (disabled_wants s t Et Hct) as [k [b [r [Hcur _]]]].
    destruct (max_want s N) as [tm [bm [HtmN [Hwm Hmax]]]].
    { exists t, b. split; [exact HtmN || exact HtN|]. unfold want. rewrite Hcur. reflexivity. }
    exfalso.
    assert (Hcm : t_cur (c_thr s tm) <> []) by (unfold want in Hwm; intros E; rewrite E in Hwm; discriminate).
    destruct (disabled_wants s tm (Hdis tm HtmN) Hcm) as [km [bm' [rm [Hcurm Hincm]]]].
    assert (bm' = bm) by (unfold want in Hwm; rewrite Hcurm in Hwm; inversion Hwm; reflexivity). subst bm'.
    destruct (incompatible_holder _ _ Hincm) as [u [ku Hu]].
    apply (inv_L _ I) in Hu.
    pose proof (held_means_running s I u bm ku Hu) as Hcu.
    assert (HuN : u < N) by (destruct (le_lt_dec N u) as [Hl|Hl]; [specialize (Hfin u Hl); contradiction|exact Hl]).
    destruct (disabled_wants s u (Hdis u HuN) Hcu) as [k2 [b2 [r2 [Hcur2 _]]]].
    pose proof (inv_W _ I u) as W. rewrite Hcur2 in W. cbn [wl] in W.
    apply andb_true_iff in W. destruct W as [W _]. apply andb_true_iff in W. destruct W as [_ W].
    rewrite forallb_forall in W. specialize (W _ Hu). simpl in W. apply Nat.ltb_lt in W.
    assert (b2 <= bm) by (apply (Hmax u b2 HuN); unfold want; rewrite Hcur2; reflexivity). lia.
Qed.
