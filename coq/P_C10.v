(* P_C10.v — lifecycle events are paired, over every history: for each connection the application sees `connected`
   at most once, `disconnected` at most once and only after `connected`, every other event (request, chunk,
   expect-continue, invalid request, message sent) only in between, nothing after `disconnected`.
   The statement is a monitor over the log (life_run); the proof carries an invariant that ties the monitor's state to
   the world: a connection is in the `connected` state of the monitor exactly when http_server knows it. *)
From Via Require Import M_Char M_Encode M_Parse M_Receive M_Server.
From Coq Require Import Lia Arith.
Local Open Scope N_scope.

Inductive lst := Lnone | Lconn | Ldisc.
Definition lstate := nat -> lst.
Definition lset (s : lstate) (id : nat) (v : lst) : lstate := fun j => if Nat.eqb j id then v else s j.

Definition during (s : lstate) (id : nat) : option lstate := match s id with Lconn => Some s | _ => None end.

Definition life_step (s : lstate) (l : logitem) : option lstate :=
  match l with
  | LConnected id => match s id with Lnone => Some (lset s id Lconn) | _ => None end
  | LDisconnected id => match s id with Lconn => Some (lset s id Ldisc) | _ => None end
  | LReq id _ _ _ _ _ | LChunk id _ _ _ | LContinue id | LInvalid id _ | LSent id => during s id
  | _ => Some s
  end.

Fixpoint life_run (s : lstate) (log : list logitem) : option lstate :=
  match log with
  | [] => Some s
  | l :: t => match life_step s l with Some s1 => life_run s1 t | None => None end
  end.

Lemma life_run_app s a b : life_run s (a ++ b) = match life_run s a with Some s1 => life_run s1 b | None => None end.
Proof. revert s. induction a as [|x a IH]; intros s; cbn [app life_run]; [reflexivity|]. destruct (life_step s x); [apply IH | reflexivity]. Qed.

(* items that say nothing about the lifecycle *)
Definition quiet_item (l : logitem) : bool :=
  match l with
  | LConnected _ | LDisconnected _ | LReq _ _ _ _ _ _ | LChunk _ _ _ _ | LContinue _ | LInvalid _ _ | LSent _ => false
  | _ => true
  end.
Definition quiet (log : list logitem) : Prop := forallb quiet_item log = true.

Lemma quiet_run s log : quiet log -> life_run s log = Some s.
Proof.
  unfold quiet. induction log as [|x t IH]; intros H; [reflexivity|]. cbn [forallb] in H. apply Bool.andb_true_iff in H. destruct H as [Hx Ht].
  cbn [life_run]. destruct x; try discriminate; cbn [life_step]; apply IH, Ht.
Qed.

Lemma quiet_app a b : quiet a -> quiet b -> quiet (a ++ b).
Proof. unfold quiet. intros Ha Hb. rewrite forallb_app, Ha, Hb. reflexivity. Qed.

Lemma quiet_nil : quiet []. Proof. reflexivity. Qed.

(* ---- the invariant ---- *)
Definition Inv (w : world) (s : lstate) : Prop :=
  NoDup (map c_id (w_conns w)) /\
  (forall c, In c (w_conns w) -> (c_id c <= w_next w)%nat) /\
  (forall id, (w_next w < id)%nat -> s id = Lnone) /\
  (forall c, In c (w_conns w) -> (s (c_id c) = Lconn <-> c_in_http c = true)) /\
  (forall c, In c (w_conns w) -> c_handshake_pending c = true -> s (c_id c) = Lnone) /\
  (forall id, s id = Lconn -> exists c, In c (w_conns w) /\ c_id c = id).

(* a world change that the monitor does not see: same connections, same http membership, no new handshakes *)
Definition frame (w w' : world) : Prop :=
  w_next w' = w_next w /\
  Forall2 (fun c c' => c_id c' = c_id c /\ c_in_http c' = c_in_http c /\ (c_handshake_pending c' = true -> c_handshake_pending c = true))
          (w_conns w) (w_conns w').

Lemma frame_refl w : frame w w.
Proof. split; [reflexivity|]. generalize (w_conns w). induction l; constructor; auto. Qed.

Lemma Forall2_trans' {A} (R : A -> A -> Prop) : (forall a b c, R a b -> R b c -> R a c) -> forall x y z, Forall2 R x y -> Forall2 R y z -> Forall2 R x z.
Proof.
  intros HR x y z H. revert z. induction H as [|a b x y Hab Hxy IH]; intros z Hz; inversion Hz; subst; constructor; eauto.
Qed.

Lemma frame_trans w1 w2 w3 : frame w1 w2 -> frame w2 w3 -> frame w1 w3.
Proof.
  intros [A1 B1] [A2 B2]. split; [congruence|].
  eapply Forall2_trans'; [|exact B1|exact B2]. intros a b c (E1 & E2 & E3) (F1 & F2 & F3). repeat split; try congruence. auto.
Qed.

Lemma Forall2_map_id (l l' : list conn) : Forall2 (fun c c' => c_id c' = c_id c /\ c_in_http c' = c_in_http c /\ (c_handshake_pending c' = true -> c_handshake_pending c = true)) l l' ->
  map c_id l' = map c_id l.
Proof. induction 1 as [|a b l l' (E & _) _ IH]; cbn; [reflexivity | rewrite E, IH; reflexivity]. Qed.

Lemma Forall2_In_r {A B} (R : A -> B -> Prop) l l' b : Forall2 R l l' -> In b l' -> exists a, In a l /\ R a b.
Proof. induction 1 as [|x y l l' Hxy _ IH]; intros Hin; [contradiction|]. destruct Hin as [<- | Hin]; [exists x; split; [left; reflexivity | exact Hxy] | destruct (IH Hin) as [a [Ha Hr]]; exists a; split; [right; exact Ha | exact Hr]]. Qed.

Lemma Forall2_In_l {A B} (R : A -> B -> Prop) l l' a : Forall2 R l l' -> In a l -> exists b, In b l' /\ R a b.
Proof. induction 1 as [|x y l l' Hxy _ IH]; intros Hin; [contradiction|]. destruct Hin as [<- | Hin]; [exists y; split; [left; reflexivity | exact Hxy] | destruct (IH Hin) as [b [Hb Hr]]; exists b; split; [right; exact Hb | exact Hr]]. Qed.

Lemma Inv_frame w w' s : Inv w s -> frame w w' -> Inv w' s.
Proof.
  intros (N & B & F & H & P & X) [Fn Fc].
  split; [rewrite (Forall2_map_id _ _ Fc); exact N|].
  split; [intros c' Hin; destruct (Forall2_In_r _ _ _ _ Fc Hin) as [c [Hc (E & _)]]; rewrite E, Fn; apply B, Hc|].
  split; [intros id Hid; apply F; rewrite <- Fn; exact Hid|].
  split; [intros c' Hin; destruct (Forall2_In_r _ _ _ _ Fc Hin) as [c [Hc (E1 & E2 & _)]]; rewrite E1, E2; apply H, Hc|].
  split; [intros c' Hin Hp; destruct (Forall2_In_r _ _ _ _ Fc Hin) as [c [Hc (E1 & _ & E3)]]; rewrite E1; apply P; [exact Hc | apply E3, Hp]|].
  intros id Hs. destruct (X id Hs) as [c [Hc Hid]]. destruct (Forall2_In_l _ _ _ _ Fc Hc) as [c' [Hc' (E & _)]]. exists c'. split; [exact Hc' | congruence].
Qed.

(* replacing a connection by one with the same identity, http membership and no new handshake *)
Lemma put_frame c' : forall l, Forall2 (fun c d => c_id d = c_id c /\ c_in_http d = c_in_http c /\ (c_handshake_pending d = true -> c_handshake_pending c = true)) l l ->
  (forall c, In c l -> c_id c = c_id c' -> c_in_http c' = c_in_http c /\ (c_handshake_pending c' = true -> c_handshake_pending c = true)) ->
  Forall2 (fun c d => c_id d = c_id c /\ c_in_http d = c_in_http c /\ (c_handshake_pending d = true -> c_handshake_pending c = true)) l (put_conn c' l).
Proof.
  induction l as [|d t IH]; intros _ H; cbn [put_conn]; [constructor|].
  destruct (Nat.eqb (c_id d) (c_id c')) eqn:E.
  - apply Nat.eqb_eq in E. destruct (H d (or_introl eq_refl) E) as [E2 E3]. constructor; [repeat split; auto|]. clear. induction t; constructor; auto.
  - constructor; [repeat split; auto|]. apply IH; [clear; induction t; constructor; auto | intros c Hc; apply H; right; exact Hc].
Qed.

Lemma frame_upd w c c' : find_conn (c_id c') (w_conns w) = Some c ->
  c_in_http c' = c_in_http c -> (c_handshake_pending c' = true -> c_handshake_pending c = true) ->
  NoDup (map c_id (w_conns w)) -> frame w (upd w c').
Proof.
  intros Hf E2 E3 Hn. split; [reflexivity|]. cbn [upd set_conns w_conns].
  assert (Hrefl : forall l : list conn, Forall2 (fun c d => c_id d = c_id c /\ c_in_http d = c_in_http c /\ (c_handshake_pending d = true -> c_handshake_pending c = true)) l l)
    by (induction l; constructor; auto).
  apply put_frame; [apply Hrefl|].
  intros d Hd Hid.
  assert (d = c); [|subst; split; assumption].
  revert Hf Hd Hn. generalize (w_conns w). induction l as [|x t IH]; cbn [find_conn In map]; intros Hf Hd Hn; [contradiction|].
  inversion Hn as [|? ? Hnin Hn']; subst.
  destruct (Nat.eqb (c_id x) (c_id c')) eqn:E.
  - inversion Hf; subst. destruct Hd as [-> | Hd]; [reflexivity|]. exfalso. apply Hnin. apply Nat.eqb_eq in E. rewrite E, <- Hid. apply in_map, Hd.
  - destruct Hd as [-> | Hd]; [apply Nat.eqb_neq in E; congruence | apply IH; assumption].
Qed.

(* ---- finding and replacing ---- *)
Lemma find_in id : forall l c, find_conn id l = Some c -> In c l /\ c_id c = id.
Proof.
  induction l as [|x t IH]; cbn [find_conn]; intros c H; [discriminate|].
  destruct (Nat.eqb (c_id x) id) eqn:E; [inversion H; subst; split; [left; reflexivity | apply Nat.eqb_eq, E] | destruct (IH c H); split; [right|]; assumption].
Qed.

Definition ok2 (s : lstate) (r : world * list logitem) : Prop := exists s', life_run s (snd r) = Some s' /\ Inv (fst r) s'.
(* ... and no connection enters the connected state *)
Definition ok3 (s : lstate) (r : world * list logitem) : Prop :=
  exists s', life_run s (snd r) = Some s' /\ Inv (fst r) s' /\ (forall j, s' j = Lconn -> s j = Lconn).
Definition quiet2 (w : world) (r : world * list logitem) : Prop := frame w (fst r) /\ quiet (snd r).

Lemma ok3_ok2 s r : ok3 s r -> ok2 s r.
Proof. intros [s' [A [B _]]]. exists s'. split; assumption. Qed.

Lemma quiet2_ok3 w s r : Inv w s -> quiet2 w r -> ok3 s r.
Proof. intros Hi [Hf Hq]. exists s. split; [apply quiet_run, Hq | split; [eapply Inv_frame; eassumption | auto]]. Qed.

Lemma quiet2_ok2 w s r : Inv w s -> quiet2 w r -> ok2 s r.
Proof. intros Hi [Hf Hq]. exists s. split; [apply quiet_run, Hq | eapply Inv_frame; eassumption]. Qed.

Lemma ok2_then s r1 (f : world -> world * list logitem) :
  ok2 s r1 -> (forall s1, Inv (fst r1) s1 -> ok2 s1 (f (fst r1))) ->
  ok2 s (fst (f (fst r1)), snd r1 ++ snd (f (fst r1))).
Proof.
  intros [s1 [H1 I1]] Hf. destruct (Hf s1 I1) as [s2 [H2 I2]]. exists s2. cbn [fst snd]. rewrite life_run_app, H1. split; assumption.
Qed.

Lemma frame_same_conns w w' : w_conns w' = w_conns w -> w_next w' = w_next w -> frame w w'.
Proof. intros E1 E2. split; [exact E2|]. rewrite E1. generalize (w_conns w). induction l; constructor; auto. Qed.

Lemma frame_set_undefined w : frame w (set_undefined w). Proof. apply frame_same_conns; reflexivity. Qed.
Lemma frame_add_aborted w l : frame w (add_aborted w l). Proof. apply frame_same_conns; reflexivity. Qed.

Lemma Inv_nodup w s : Inv w s -> NoDup (map c_id (w_conns w)). Proof. intros (N & _). exact N. Qed.

(* ---- quiet functions ---- *)
Lemma sock_close_quiet w c : NoDup (map c_id (w_conns w)) -> find_conn (c_id c) (w_conns w) = Some c -> quiet2 w (sock_close w c).
Proof.
  intros Hn Hf. unfold sock_close. destruct (c_closed c); [split; [apply frame_refl | reflexivity]|].
  cbn [cancel_pending fst snd]. split; [|reflexivity]. cbn [fst].
  eapply frame_trans; [|apply frame_add_aborted]. eapply frame_upd; [exact Hf | reflexivity | cbn; discriminate | exact Hn].
Qed.

Lemma enable_reception_quiet w id : NoDup (map c_id (w_conns w)) -> quiet2 w (enable_reception w id).
Proof.
  intros Hn. unfold enable_reception. destruct (find_conn id (w_conns w)) as [c|] eqn:Ef; [|split; [apply frame_refl | reflexivity]].
  destruct (find_in _ _ _ Ef) as [_ Hid]. split; [|reflexivity]. cbn [fst].
  eapply frame_upd; [cbn [set_read_pending c_id]; rewrite Hid; exact Ef | reflexivity | cbn; auto | exact Hn].
Qed.

Lemma send_data_quiet w c0 c slots : NoDup (map c_id (w_conns w)) -> find_conn (c_id c) (w_conns w) = Some c0 ->
  c_in_http c = c_in_http c0 -> (c_handshake_pending c = true -> c_handshake_pending c0 = true) ->
  quiet2 w (fst (send_data w c slots)).
Proof.
  intros Hn Hf E2 E3. unfold send_data. destruct (c_transmitting c); [split; [apply frame_set_undefined | reflexivity]|].
  destruct (c_connected c); cbn [fst snd]; (split; [|reflexivity]); eapply frame_upd; try exact Hn; try exact Hf; cbn; auto.
Qed.

(* ---- http_server::close(): every open http connection is told, in one go ---- *)
Lemma nodup_id_inj (l : list conn) a b : NoDup (map c_id l) -> In a l -> In b l -> c_id a = c_id b -> a = b.
Proof.
  induction l as [|x t IH]; intros Hn Ha Hb E; [contradiction|]. inversion Hn as [|? ? Hnin Hn']; subst.
  destruct Ha as [-> | Ha], Hb as [-> | Hb]; try reflexivity.
  - exfalso. apply Hnin. rewrite E. apply in_map, Hb.
  - exfalso. apply Hnin. rewrite <- E. apply in_map, Ha.
  - apply IH; assumption.
Qed.

Lemma nodup_filter_ids (p : conn -> bool) (l : list conn) : NoDup (map c_id l) -> NoDup (map c_id (filter p l)).
Proof.
  induction l as [|x t IH]; intros Hn; [constructor|]. inversion Hn as [|? ? Hnin Hn']; subst. cbn [filter].
  destruct (p x); [|apply IH, Hn']. cbn [map]. constructor; [|apply IH, Hn'].
  intros Hin. apply Hnin. apply in_map_iff in Hin. destruct Hin as [c [E Hc]]. apply filter_In in Hc. destruct Hc as [Hc _]. rewrite <- E. apply in_map, Hc.
Qed.

Definition has_id (l : list conn) (j : nat) : bool := existsb (fun c => Nat.eqb (c_id c) j) l.

Lemma has_id_in l j : has_id l j = true <-> exists c, In c l /\ c_id c = j.
Proof.
  unfold has_id. rewrite existsb_exists. split; intros [c [Hc E]]; exists c; (split; [exact Hc|]); [apply Nat.eqb_eq, E | apply Nat.eqb_eq, E].
Qed.

Lemma run_disc_list : forall l s, NoDup (map c_id l) -> (forall c, In c l -> s (c_id c) = Lconn) ->
  exists s', life_run s (map LDisconnected (map c_id l)) = Some s' /\ forall j, s' j = if has_id l j then Ldisc else s j.
Proof.
  induction l as [|c t IH]; intros s Hn Hs.
  - exists s. split; [reflexivity | intros j; reflexivity].
  - inversion Hn as [|? ? Hnin Hn']; subst. cbn [map life_run life_step]. rewrite (Hs c (or_introl eq_refl)).
    destruct (IH (lset s (c_id c) Ldisc) Hn') as [s' [Hr Hv]].
    { intros d Hd. unfold lset. destruct (Nat.eqb (c_id d) (c_id c)) eqn:E; [exfalso; apply Hnin; apply Nat.eqb_eq in E; rewrite <- E; apply in_map, Hd | apply Hs; right; exact Hd]. }
    exists s'. split; [exact Hr|]. intros j. rewrite Hv. unfold has_id. cbn [existsb]. unfold lset.
    fold (has_id t j). destruct (has_id t j); [rewrite Bool.orb_true_r; reflexivity|]. rewrite Bool.orb_false_r.
    rewrite Nat.eqb_sym. reflexivity.
Qed.

Lemma close_logs_quiet l : quiet (concat (map close_log l)).
Proof. induction l as [|c t IH]; [reflexivity|]. cbn [map concat]. apply quiet_app; [|exact IH]. unfold close_log. destruct (c_closed c); reflexivity. Qed.

Lemma server_close_except_ok held w s : Inv w s -> ok3 s (server_close_except held w).
Proof.
  intros (N & B & F & H & P & X).
  pose (spared := fun c => match held with Some h => Nat.eqb (c_id c) h | None => false end).
  pose (http := filter (fun c => c_in_http c && negb (spared c)) (w_conns w)).
  pose (rest := filter (fun c => c_in_comms c && negb (c_in_http c) && negb (spared c)) (w_conns w)).
  pose (g := fun c => if (c_in_comms c || c_in_http c) && negb (spared c) then kill c else c).
  destruct (run_disc_list http s (nodup_filter_ids _ _ N)) as [s' [Hr Hv]].
  { intros c Hc. apply filter_In in Hc. destruct Hc as [Hc Hp]. apply Bool.andb_true_iff in Hp. destruct Hp as [Hp _]. apply (H c Hc), Hp. }
  exists s'.
  change (life_run s (map LDisconnected (map c_id http) ++ concat (map close_log (http ++ rest))) = Some s' /\
          Inv (mk_world (map g (w_conns w)) (w_next w) (w_shutting_down w) false (w_alive w)
                        (w_aborted w ++ concat (map close_aborts (http ++ rest))) (w_reqno w) (w_undefined w)) s'
          /\ (forall j, s' j = Lconn -> s j = Lconn)).
  split.
  { rewrite life_run_app, Hr. apply quiet_run, close_logs_quiet. }
  split; [|intros j Hj; rewrite Hv in Hj; destruct (has_id http j); [discriminate | exact Hj]].
  unfold Inv. cbn [w_conns w_next].
  assert (Hg : forall c, c_id (g c) = c_id c) by (intros c; unfold g; destruct ((c_in_comms c || c_in_http c) && negb (spared c)); reflexivity).
  assert (Hids : map c_id (map g (w_conns w)) = map c_id (w_conns w)) by (rewrite map_map; apply map_ext, Hg).
  assert (Hhttp : forall c, In c (w_conns w) -> (has_id http (c_id c) = true <-> c_in_http c = true /\ spared c = false)).
  { intros c Hc. rewrite has_id_in. split.
    - intros [d [Hd E]]. apply filter_In in Hd. destruct Hd as [Hd Hp]. assert (d = c) by (eapply nodup_id_inj; eassumption). subst d.
      apply Bool.andb_true_iff in Hp. destruct Hp as [P1 P2]. split; [exact P1 | destruct (spared c); [discriminate | reflexivity]].
    - intros [P1 P2]. exists c. split; [apply filter_In; split; [exact Hc | rewrite P1, P2; reflexivity] | reflexivity]. }
  split; [rewrite Hids; exact N|].
  split; [intros c' Hin; apply in_map_iff in Hin; destruct Hin as [c [<- Hc]]; rewrite Hg; apply B, Hc|].
  split.
  { intros id Hid. rewrite Hv. destruct (has_id http id) eqn:E; [|apply F, Hid].
    apply has_id_in in E. destruct E as [c [Hc E]]. apply filter_In in Hc. destruct Hc as [Hc _]. specialize (B c Hc). lia. }
  split.
  { intros c' Hin. apply in_map_iff in Hin. destruct Hin as [c [<- Hc]]. rewrite Hg, Hv.
    destruct (has_id http (c_id c)) eqn:E.
    - apply (Hhttp c Hc) in E. destruct E as [P1 P2]. unfold g. rewrite P1, P2, Bool.orb_true_r. cbn [andb negb kill c_in_http]. split; discriminate.
    - assert (Hn : ~ (c_in_http c = true /\ spared c = false)) by (intros Hc2; apply (Hhttp c Hc) in Hc2; congruence).
      unfold g. destruct ((c_in_comms c || c_in_http c) && negb (spared c)) eqn:Ek.
      + cbn [kill c_in_http]. split; [|discriminate]. intros Hs. exfalso. apply Hn. split; [apply (H c Hc), Hs|].
        apply Bool.andb_true_iff in Ek. destruct Ek as [_ Ek]. destruct (spared c); [discriminate | reflexivity].
      + apply H, Hc. }
  split.
  { intros c' Hin Hp. apply in_map_iff in Hin. destruct Hin as [c [<- Hc]]. rewrite Hg, Hv. revert Hp. unfold g.
    destruct ((c_in_comms c || c_in_http c) && negb (spared c)) eqn:Ek; [cbn [kill c_handshake_pending]; discriminate|].
    intros Hp. destruct (has_id http (c_id c)) eqn:E; [|apply P; assumption].
    apply (Hhttp c Hc) in E. destruct E as [P1 P2]. rewrite P1, P2, Bool.orb_true_r in Ek. discriminate. }
  intros id Hs. rewrite Hv in Hs. destruct (has_id http id); [discriminate|]. destruct (X id Hs) as [c [Hc E]].
  exists (g c). split; [apply in_map, Hc | rewrite Hg; exact E].
Qed.

(* ---- replacing one connection together with its monitor state ---- *)
Lemma put_ids c1 : forall l, map c_id (put_conn c1 l) = map c_id l.
Proof.
  induction l as [|d t IH]; [reflexivity|]. cbn [put_conn]. destruct (Nat.eqb (c_id d) (c_id c1)) eqn:E; cbn [map]; [apply Nat.eqb_eq in E; congruence | rewrite IH; reflexivity].
Qed.

Lemma put_in c1 : forall l d, NoDup (map c_id l) -> In d (put_conn c1 l) -> d = c1 \/ (In d l /\ c_id d <> c_id c1).
Proof.
  induction l as [|x t IH]; intros d Hn Hin; [contradiction|]. inversion Hn as [|? ? Hnin Hn']; subst. cbn [put_conn] in Hin.
  destruct (Nat.eqb (c_id x) (c_id c1)) eqn:E.
  - destruct Hin as [<- | Hin]; [left; reflexivity|]. right. split; [right; exact Hin|]. apply Nat.eqb_eq in E.
    intros Hd. apply Hnin. rewrite E, <- Hd. apply in_map, Hin.
  - destruct Hin as [<- | Hin]; [right; split; [left; reflexivity | apply Nat.eqb_neq, E]|].
    destruct (IH d Hn' Hin) as [-> | [Hd Hne]]; [left; reflexivity | right; split; [right; exact Hd | exact Hne]].
Qed.

Lemma put_has c1 : forall l c, find_conn (c_id c1) l = Some c -> In c1 (put_conn c1 l).
Proof.
  induction l as [|x t IH]; cbn [find_conn put_conn]; intros c H; [discriminate|].
  destruct (Nat.eqb (c_id x) (c_id c1)); [left; reflexivity | right; eapply IH; exact H].
Qed.

Lemma put_keeps c1 : forall l d, In d l -> c_id d <> c_id c1 -> In d (put_conn c1 l).
Proof.
  induction l as [|x t IH]; intros d Hin Hne; [contradiction|]. cbn [put_conn].
  destruct (Nat.eqb (c_id x) (c_id c1)) eqn:E.
  - destruct Hin as [-> | Hin]; [apply Nat.eqb_eq in E; congruence | right; exact Hin].
  - destruct Hin as [-> | Hin]; [left; reflexivity | right; apply IH; assumption].
Qed.

Lemma Inv_upd w s c c1 v : Inv w s -> find_conn (c_id c1) (w_conns w) = Some c ->
  (v = Lconn <-> c_in_http c1 = true) -> (c_handshake_pending c1 = true -> v = Lnone) ->
  Inv (upd w c1) (lset s (c_id c1) v).
Proof.
  intros (N & B & F & H & P & X) Hf Hv Hp. destruct (find_in _ _ _ Hf) as [Hc Hid].
  unfold Inv. cbn [upd set_conns w_conns w_next]. rewrite put_ids.
  split; [exact N|].
  split; [intros d Hd; destruct (put_in c1 _ d N Hd) as [-> | [Hd' _]]; [rewrite <- Hid; apply B, Hc | apply B, Hd']|].
  split; [intros id Hlt; unfold lset; destruct (Nat.eqb id (c_id c1)) eqn:E; [apply Nat.eqb_eq in E; subst id; specialize (B c Hc); lia | apply F, Hlt]|].
  split.
  { intros d Hd. destruct (put_in c1 _ d N Hd) as [-> | [Hd' Hne]]; unfold lset.
    - rewrite Nat.eqb_refl. exact Hv.
    - destruct (Nat.eqb (c_id d) (c_id c1)) eqn:E; [apply Nat.eqb_eq in E; congruence | apply H, Hd']. }
  split.
  { intros d Hd Hh. destruct (put_in c1 _ d N Hd) as [-> | [Hd' Hne]]; unfold lset.
    - rewrite Nat.eqb_refl. apply Hp, Hh.
    - destruct (Nat.eqb (c_id d) (c_id c1)) eqn:E; [apply Nat.eqb_eq in E; congruence | apply P; assumption]. }
  intros id Hs. unfold lset in Hs. destruct (Nat.eqb id (c_id c1)) eqn:E.
  - apply Nat.eqb_eq in E. subst id. exists c1. split; [eapply put_has; exact Hf | reflexivity].
  - destruct (X id Hs) as [d [Hd Hdi]]. exists d. split; [apply put_keeps; [exact Hd | apply Nat.eqb_neq in E; congruence] | exact Hdi].
Qed.

Lemma find_after_frame w w' id c : frame w w' -> find_conn id (w_conns w) = Some c ->
  exists c', find_conn id (w_conns w') = Some c' /\ c_in_http c' = c_in_http c.
Proof.
  intros [_ Hf]. revert Hf. generalize (w_conns w) (w_conns w'). induction 1 as [|a b l l' (E1 & E2 & _) _ IH]; cbn [find_conn]; intros H; [discriminate|].
  rewrite E1. destruct (Nat.eqb (c_id a) id); [inversion H; subst; exists b; split; [reflexivity | exact E2] | apply IH, H].
Qed.

Lemma find_put_same' c1 : forall l c, find_conn (c_id c1) l = Some c -> find_conn (c_id c1) (put_conn c1 l) = Some c1.
Proof.
  induction l as [|x t IH]; cbn [find_conn put_conn]; intros c H; [discriminate|].
  destruct (Nat.eqb (c_id x) (c_id c1)) eqn:E; cbn [find_conn]; [rewrite Nat.eqb_refl; reflexivity | rewrite E; eapply IH; exact H].
Qed.

Lemma quiet2_trans w r1 (f : world -> world * list logitem) :
  quiet2 w r1 -> quiet2 (fst r1) (f (fst r1)) -> quiet2 w (fst (f (fst r1)), snd r1 ++ snd (f (fst r1))).
Proof. intros [F1 Q1] [F2 Q2]. split; [eapply frame_trans; eassumption | apply quiet_app; assumption]. Qed.

Lemma frame_nodup w w' : frame w w' -> NoDup (map c_id (w_conns w)) -> NoDup (map c_id (w_conns w')).
Proof. intros [_ Hf] Hn. rewrite (Forall2_map_id _ _ Hf). exact Hn. Qed.

Lemma drop_comms_quiet w c : NoDup (map c_id (w_conns w)) -> find_conn (c_id c) (w_conns w) = Some c -> c_in_http c = false ->
  quiet2 w (drop_comms w c).
Proof.
  intros Hn Hf Hh. unfold drop_comms.
  set (c1 := mk_conn _ _ _ _ _ _ _ _ _ _ false false _ _ _ _ _ _ _).
  assert (F1 : frame w (upd w c1)) by (eapply frame_upd; [exact Hf | cbn; congruence | cbn; auto | exact Hn]).
  destruct (sock_close_quiet (upd w c1) c1 (frame_nodup _ _ F1 Hn)) as [F2 Q2].
  { cbn [upd set_conns w_conns]. eapply find_put_same'. exact Hf. }
  split; [eapply frame_trans; eassumption | exact Q2].
Qed.

Lemma Inv_not_conn_http w s c : Inv w s -> In c (w_conns w) -> s (c_id c) <> Lconn -> c_in_http c = false.
Proof. intros (_ & _ & _ & H & _) Hc Hs. destruct (c_in_http c) eqn:E; [|reflexivity]. exfalso. apply Hs, (H c Hc), E. Qed.

Lemma disconnected_ok w s id : Inv w s -> ok3 s (disconnected w id).
Proof.
  intros Hi. unfold disconnected. destruct (find_conn id (w_conns w)) as [c|] eqn:Ef; [|exists s; split; [reflexivity | split; [exact Hi | auto]]].
  destruct (find_in _ _ _ Ef) as [Hc Hid].
  destruct (c_in_http c) eqn:Eh.
  - (* known to http_server: the application is told *)
    assert (Hs : s id = Lconn) by (destruct Hi as (_ & _ & _ & H & _); rewrite <- Hid; apply (H c Hc), Eh).
    set (c1 := mk_conn _ _ _ _ _ _ _ _ _ _ _ false _ _ _ _ _ _ _).
    assert (Hid1 : c_id c1 = id) by exact Hid.
    assert (Hi1 : Inv (upd w c1) (lset s id Ldisc)).
    { rewrite <- Hid1. eapply Inv_upd; [exact Hi | rewrite Hid1; exact Ef | cbn; split; discriminate |].
      cbn [c1 c_handshake_pending]. intros Hp. destruct Hi as (_ & _ & _ & _ & P & _). rewrite <- Hid in Hs. rewrite (P c Hc Hp) in Hs. discriminate. }
    set (w' := upd w c1) in *.
    assert (G : ok3 (lset s id Ldisc) (if w_shutting_down w' && Nat.eqb (count_http w') 0 then server_close_except (Some id) w' else (w', []))).
    { destruct (w_shutting_down w' && Nat.eqb (count_http w') 0); [apply server_close_except_ok, Hi1|].
      exists (lset s id Ldisc). split; [reflexivity | split; [exact Hi1 | auto]]. }
    destruct (if w_shutting_down w' && Nat.eqb (count_http w') 0 then server_close_except (Some id) w' else (w', [])) as [w'' l''].
    destruct G as [s2 [R2 [I2 M2]]]. cbn [fst snd] in R2, I2.
    assert (Hs2 : s2 id <> Lconn) by (intros E; apply M2 in E; unfold lset in E; rewrite Nat.eqb_refl in E; discriminate).
    (* the socket of the http connection *)
    assert (G3 : exists w3 l3, (match find_conn id (w_conns w'') with
                                 | Some c2 => let '(w3, l3) := sock_close w'' c2 in (w3, LDisconnected id :: l'' ++ l3)
                                 | None => (w'', LDisconnected id :: l'')
                                 end) = (w3, LDisconnected id :: l'' ++ l3) /\ quiet l3 /\ frame w'' w3).
    { destruct (find_conn id (w_conns w'')) as [c2|] eqn:Ef2.
      - destruct (find_in _ _ _ Ef2) as [_ Hid2].
        destruct (sock_close_quiet w'' c2 (Inv_nodup _ _ I2)) as [F3 Q3]; [rewrite Hid2; exact Ef2|].
        destruct (sock_close w'' c2) as [w3 l3]. exists w3, l3. split; [reflexivity | split; assumption].
      - exists w'', []. rewrite app_nil_r. split; [reflexivity | split; [reflexivity | apply frame_refl]]. }
    destruct G3 as [w3 [l3 [E3 [Q3 F3]]]]. rewrite E3.
    pose proof (Inv_frame _ _ _ I2 F3) as I3.
    assert (R3 : life_run s (LDisconnected id :: l'' ++ l3) = Some s2).
    { cbn [life_run life_step]. rewrite Hs. rewrite life_run_app, R2. apply quiet_run, Q3. }
    assert (M3 : forall j, s2 j = Lconn -> s j = Lconn).
    { intros j Hj. apply M2 in Hj. unfold lset in Hj. destruct (Nat.eqb j id); [discriminate | exact Hj]. }
    destruct (find_conn id (w_conns w3)) as [c4|] eqn:Ef4; [|exists s2; split; [exact R3 | split; [exact I3 | exact M3]]].
    destruct (find_in _ _ _ Ef4) as [Hc4 Hid4].
    destruct (c_in_comms c4); [|exists s2; split; [exact R3 | split; [exact I3 | exact M3]]].
    destruct (drop_comms_quiet w3 c4 (Inv_nodup _ _ I3)) as [F5 Q5]; [rewrite Hid4; exact Ef4 | eapply Inv_not_conn_http; [exact I3 | exact Hc4 | rewrite Hid4; exact Hs2]|].
    destruct (drop_comms w3 c4) as [w5 l5]. cbn [fst snd] in *.
    exists s2. split; [change (life_run s ((LDisconnected id :: l'' ++ l3) ++ l5) = Some s2); rewrite life_run_app, R3; apply quiet_run, Q5 | split; [eapply Inv_frame; eassumption | exact M3]].
  - (* not (or no longer) known to http_server: only the comms connection goes *)
    rewrite Ef. destruct (c_in_comms c); [|exists s; split; [reflexivity | split; [exact Hi | auto]]].
    destruct (drop_comms_quiet w c (Inv_nodup _ _ Hi)) as [F5 Q5]; [rewrite Hid; exact Ef | exact Eh|].
    destruct (drop_comms w c) as [w5 l5]. cbn [fst snd app] in *.
    exists s. split; [apply quiet_run, Q5 | split; [eapply Inv_frame; eassumption | auto]].
Qed.

Lemma ok3_prefix s q w l : quiet q -> ok3 s (w, l) -> ok3 s (w, q ++ l).
Proof. intros Hq [s' [R [I M]]]. exists s'. cbn [fst snd] in *. split; [rewrite life_run_app, (quiet_run s q Hq); exact R | split; assumption]. Qed.

Lemma ok3_suffix s q w l : quiet q -> ok3 s (w, l) -> ok3 s (w, l ++ q).
Proof. intros Hq [s' [R [I M]]]. exists s'. cbn [fst snd] in *. split; [rewrite life_run_app, R; apply quiet_run, Hq | split; assumption]. Qed.

Lemma ok3_bind s r1 (f : world -> world * list logitem) :
  ok3 s r1 -> (forall s1, Inv (fst r1) s1 -> ok3 s1 (f (fst r1))) ->
  ok3 s (fst (f (fst r1)), snd r1 ++ snd (f (fst r1))).
Proof.
  intros [s1 [H1 [I1 M1]]] Hf. destruct (Hf s1 I1) as [s2 [H2 [I2 M2]]]. exists s2. cbn [fst snd]. rewrite life_run_app, H1.
  split; [exact H2 | split; [exact I2 | auto]].
Qed.

Lemma ok3_refl w s : Inv w s -> ok3 s (w, []).
Proof. intros Hi. exists s. split; [reflexivity | split; [exact Hi | auto]]. Qed.

Lemma comms_shutdown_ok o w s id : Inv w s -> ok3 s (comms_shutdown o w id).
Proof.
  intros Hi. unfold comms_shutdown. destruct (find_conn id (w_conns w)) as [c|] eqn:Ef; [|apply ok3_refl, Hi].
  destruct (find_in _ _ _ Ef) as [Hc Hid].
  set (c1 := mk_conn _ _ _ _ true _ _ _ _ _ _ _ _ _ _ _ _ _ _).
  destruct (o_tls o).
  - cbn [cancel_pending fst snd]. eapply quiet2_ok3; [exact Hi|]. split; [|reflexivity]. cbn [fst].
    eapply frame_trans; [|apply frame_add_aborted]. eapply frame_upd; [cbn [c1 c_id]; rewrite ?Hid; exact Ef | reflexivity | cbn; auto | exact (Inv_nodup _ _ Hi)].
  - assert (F1 : frame w (upd w c1)) by (eapply frame_upd; [cbn [c1 c_id]; rewrite ?Hid; exact Ef | reflexivity | cbn; auto | exact (Inv_nodup _ _ Hi)]).
    pose proof (disconnected_ok (upd w c1) s id (Inv_frame _ _ _ Hi F1)) as G.
    destruct (disconnected (upd w c1) id) as [w1 l1].
    change (LShutdown id :: (match c_write c1 with Some _ => [LTruncated id] | None => [] end) ++ l1)
      with ((LShutdown id :: (match c_write c1 with Some _ => [LTruncated id] | None => [] end)) ++ l1).
    apply ok3_prefix; [destruct (c_write c1); reflexivity | exact G].
Qed.

Lemma comms_disconnect_ok o w s id : Inv w s -> ok3 s (comms_disconnect o w id).
Proof.
  intros Hi. unfold comms_disconnect. destruct (find_conn id (w_conns w)) as [c|] eqn:Ef; [|apply ok3_refl, Hi].
  destruct (find_in _ _ _ Ef) as [Hc Hid].
  destruct (negb (c_transmitting c)); [apply comms_shutdown_ok, Hi|].
  eapply quiet2_ok3; [exact Hi|]. split; [|reflexivity]. cbn [fst].
  eapply frame_upd; [cbn [c_id]; rewrite ?Hid; exact Ef | reflexivity | cbn; auto | exact (Inv_nodup _ _ Hi)].
Qed.

Lemma signal_error_ok o w s id e : Inv w s -> ok3 s (signal_error o w id e).
Proof.
  intros Hi. unfold signal_error. destruct (find_conn id (w_conns w)); [|apply ok3_refl, Hi].
  destruct (negb (c_shutdown_sent c) && _ && _); [apply comms_shutdown_ok | apply disconnected_ok]; exact Hi.
Qed.

(* a connection derived from the stored one: same identity, same http membership, no new handshake *)
Definition like (c0 c : conn) : Prop :=
  c_id c = c_id c0 /\ c_in_http c = c_in_http c0 /\ (c_handshake_pending c = true -> c_handshake_pending c0 = true).

Lemma like_refl c : like c c. Proof. repeat split; auto. Qed.
Lemma like_set_tx c0 c rx h b k : like c0 c -> like c0 (set_tx c rx h b k).
Proof. intros (A & B & C). repeat split; assumption. Qed.

Lemma send_data_ok w s c0 c slots : Inv w s -> find_conn (c_id c0) (w_conns w) = Some c0 -> like c0 c ->
  ok3 s (fst (send_data w c slots)).
Proof.
  intros Hi Hf (A & B & C). eapply quiet2_ok3; [exact Hi|]. eapply send_data_quiet; [exact (Inv_nodup _ _ Hi) | rewrite A; exact Hf | exact B | exact C].
Qed.

Lemma http_send_ok o w s c0 c slots ic : Inv w s -> find_conn (c_id c0) (w_conns w) = Some c0 -> like c0 c ->
  ok3 s (fst (http_send o w c slots ic)).
Proof.
  intros Hi Hf Hl. unfold http_send.
  set (c1 := set_tx c _ _ _ _).
  pose proof (send_data_ok w s c0 c1 slots Hi Hf (like_set_tx _ _ _ _ _ _ Hl)) as G.
  destruct (send_data w c1 slots) as [[w1 l1] r1]. cbn [fst] in G.
  destruct (rq_keep_alive _ || ic); [exact G|].
  pose proof (ok3_bind s (w1, l1) (fun w' => comms_disconnect o w' (c_id c)) G (fun s1 I1 => comms_disconnect_ok o _ s1 _ I1)) as G2.
  cbn [fst snd] in G2. destruct (comms_disconnect o w1 (c_id c)) as [w2 l2]. exact G2.
Qed.

Lemma http_send_response_ok o w s c : Inv w s -> find_conn (c_id c) (w_conns w) = Some c -> ok3 s (fst (http_send_response o w c)).
Proof. intros Hi Hf. unfold http_send_response. eapply http_send_ok; [exact Hi | exact Hf | apply like_set_tx, like_refl]. Qed.

Lemma ok3_frame_after s w1 l1 w2 : ok3 s (w1, l1) -> frame w1 w2 -> ok3 s (w2, l1).
Proof. intros [s' [R [I M]]] F. exists s'. cbn [fst snd] in *. split; [exact R | split; [eapply Inv_frame; eassumption | exact M]]. Qed.

Lemma app_respond_ok o w s c rp : Inv w s -> find_conn (c_id c) (w_conns w) = Some c -> ok3 s (app_respond o w c rp).
Proof.
  intros Hi Hf. unfold app_respond.
  set (resp0 := tx_response_of_reason _ _ _).
  match goal with |- ok3 s (let (_, _) := ?X in _) => assert (G : ok3 s (fst X)) end.
  { destruct (rp_ov rp) as [|p].
    - destruct (negb (tx_response_is_valid resp0)); [apply ok3_refl, Hi|].
      eapply http_send_ok; [exact Hi | exact Hf | apply like_set_tx, like_refl].
    - destruct p as [p|p|]; try destruct p as [p|p|]; try (apply http_send_response_ok; assumption).
      + (* 3 *)
        destruct (negb (tx_response_is_valid _)); [apply ok3_refl, Hi|].
        match goal with |- ok3 s (fst (let (_, _) := ?Y in _)) => pose proof (http_send_ok o w s c (set_tx c (c_rx c) (response_message (with_version c (add_header resp0 hf_HEADER_TRANSFER_ENCODING hf_CHUNKED)) 0) (c_tx_body c) (c_keep c)) [SHeader] (rp_status rp =? code_CONTINUE) Hi Hf (like_set_tx _ _ _ _ _ _ (like_refl c))) as G1 end.
        destruct (http_send o w _ [SHeader] _) as [[w' l'] ok']. cbn [fst] in G1 |- *.
        destruct (find_conn (c_id c) (w_conns w')) as [c'|] eqn:Ef'; [|exact G1].
        eapply ok3_frame_after; [exact G1|]. destruct G1 as [s1 [_ [I1 _]]]. cbn [fst] in I1. destruct (find_in _ _ _ Ef') as [_ Hid'].
        eapply frame_upd; [cbn [c_id]; rewrite Hid'; exact Ef' | reflexivity | cbn; auto | exact (Inv_nodup _ _ I1)].
      + (* 2 *)
        destruct (negb (tx_response_is_valid resp0)).
        * cbn [fst]. eapply quiet2_ok3; [exact Hi|]. split; [|reflexivity]. cbn [fst].
          eapply frame_upd; [exact Hf | reflexivity | cbn; auto | exact (Inv_nodup _ _ Hi)].
        * destruct (rv_is_head (c_rx c) || _); eapply http_send_ok; try exact Hi; try exact Hf; apply like_set_tx, like_refl.
      + (* 1 *)
        destruct (negb (tx_response_is_valid resp0)); [apply ok3_refl, Hi|].
        destruct (rv_is_head (c_rx c) || _); eapply http_send_ok; try exact Hi; try exact Hf; apply like_set_tx, like_refl. }
  match goal with |- ok3 s (let (_, _) := ?X in _) => destruct X as [[w1 l1] ok] end. cbn [fst] in G.
  apply ok3_suffix; [reflexivity | exact G].
Qed.

Lemma app_on_sent_ok o w s id : Inv w s -> ok3 s (app_on_sent o w id).
Proof.
  intros Hi. unfold app_on_sent. destruct (find_conn id (w_conns w)) as [c|] eqn:Ef; [|apply ok3_refl, Hi].
  destruct (find_in _ _ _ Ef) as [_ Hid]. rewrite <- Hid in Ef.
  destruct (negb (Nat.eqb (c_chunks_left c) 0)).
  - match goal with |- ok3 s (let (_, _) := send_data w ?C ?S in _) =>
      pose proof (send_data_ok w s c C S Hi Ef ltac:(repeat split; auto)) as G; destruct (send_data w C S) as [[w1 l1] ok] end.
    apply ok3_suffix; [reflexivity | exact G].
  - destruct (c_last_due c); [|apply ok3_refl, Hi].
    match goal with |- ok3 s (let (_, _) := send_data w ?C ?S in _) =>
      pose proof (send_data_ok w s c C S Hi Ef ltac:(repeat split; auto)) as G; destruct (send_data w C S) as [[w1 l1] ok] end.
    apply ok3_suffix; [reflexivity | exact G].
Qed.

(* ---- the read loop ---- *)
Definition app_item (l : logitem) (id : nat) : Prop :=
  match l with
  | LReq i _ _ _ _ _ | LChunk i _ _ _ | LContinue i | LInvalid i _ | LSent i => i = id
  | _ => False
  end.

Lemma ok3_event s x id w l : app_item x id -> s id = Lconn -> ok3 s (w, l) -> ok3 s (w, x :: l).
Proof.
  intros Hx Hs [s' [R [I M]]]. exists s'. cbn [fst snd life_run] in *.
  assert (E : life_step s x = Some s) by (destruct x; cbn in Hx; try contradiction; subst; cbn [life_step]; unfold during; rewrite Hs; reflexivity).
  rewrite E. split; [exact R | split; assumption].
Qed.

Lemma Inv_conn_state w s c : Inv w s -> In c (w_conns w) -> c_in_http c = true -> s (c_id c) = Lconn.
Proof. intros (_ & _ & _ & H & _) Hc Hh. apply (H c Hc), Hh. Qed.

Lemma frame_bump w : frame w (bump_reqno w). Proof. apply frame_same_conns; reflexivity. Qed.

Section LoopOk.
  Variable recipe_of : str -> recipe.
  Variable o : sopts.

  Lemma app_request_ok w s c : Inv w s -> find_conn (c_id c) (w_conns w) = Some c -> c_in_http c = true ->
    ok3 s (app_request recipe_of o w c).
  Proof.
    intros Hi Hf Hh. destruct (find_in _ _ _ Hf) as [Hc _]. pose proof (Inv_conn_state _ _ _ Hi Hc Hh) as Hs.
    unfold app_request.
    set (w0 := if o_app o =? 2 then w else bump_reqno w).
    assert (F0 : frame w w0) by (unfold w0; destruct (o_app o =? 2); [apply frame_refl | apply frame_bump]).
    pose proof (Inv_frame _ _ _ Hi F0) as I0.
    assert (Hf0 : find_conn (c_id c) (w_conns w0) = Some c) by (unfold w0; destruct (o_app o =? 2); exact Hf).
    destruct (o_app o =? 2); [eapply ok3_event; [cbn; reflexivity | exact Hs | apply ok3_refl, I0]|].
    assert (Hpush : ok3 s (upd w0 (push_pending c (recipe_of (rl_uri (rq_line (rv_req (c_rx c)))))), [])).
    { eapply quiet2_ok3; [exact I0|]. split; [|reflexivity]. cbn [fst]. eapply frame_upd; [exact Hf0 | reflexivity | cbn; auto | exact (Inv_nodup _ _ I0)]. }
    destruct (hd_is_chunked _ && o_chunk o); [eapply ok3_event; [cbn; reflexivity | exact Hs | exact Hpush]|].
    destruct (o_app o =? 0); [|eapply ok3_event; [cbn; reflexivity | exact Hs | exact Hpush]].
    pose proof (app_respond_ok o w0 s c (recipe_of (rl_uri (rq_line (rv_req (c_rx c))))) I0 Hf0) as G.
    destruct (app_respond o w0 c _) as [w1 l1]. eapply ok3_event; [cbn; reflexivity | exact Hs | exact G].
  Qed.

  Lemma clear_rx_if_frame w id cond : NoDup (map c_id (w_conns w)) -> frame w (clear_rx_if w id cond).
  Proof.
    intros Hn. unfold clear_rx_if. destruct (find_conn id (w_conns w)) as [c|] eqn:Ef; [|apply frame_refl].
    destruct (cond c); [|apply frame_refl]. destruct (find_in _ _ _ Ef) as [_ Hid].
    eapply frame_upd; [cbn [set_rx set_tx c_id]; rewrite Hid; exact Ef | reflexivity | cbn; auto | exact Hn].
  Qed.

  Lemma ok3_clear s w l id cond : ok3 s (w, l) -> ok3 s (clear_rx_if w id cond, l).
  Proof. intros G. eapply ok3_frame_after; [exact G|]. destruct G as [s1 [_ [I1 _]]]. apply clear_rx_if_frame, (Inv_nodup _ _ I1). Qed.

  Lemma server_dispatch_ok w s id r : Inv w s -> (forall c, find_conn id (w_conns w) = Some c -> c_in_http c = true) ->
    ok3 s (server_dispatch recipe_of o w id r).
  Proof.
    intros Hi Hh. unfold server_dispatch. destruct (find_conn id (w_conns w)) as [c|] eqn:Ef; [|apply ok3_refl, Hi].
    specialize (Hh c eq_refl). destruct (find_in _ _ _ Ef) as [Hc Hid]. pose proof Ef as Ef'. rewrite <- Hid in Ef'.
    pose proof (Inv_conn_state _ _ _ Hi Hc Hh) as Hs. rewrite Hid in Hs.
    assert (Hinvalid : ok3 s (if o_inv o
        then let '(w1, l1, ok) := http_send_response o w c in let '(w2, l2) := comms_disconnect o w1 id in
             (clear_rx_if w2 id (fun _ => true), LInvalid id (rv_code (c_rx c)) :: l1 ++ [LSend id 0 ok] ++ l2)
        else let '(w1, l1, _) := http_send_response o w c in
             let '(w2, l2) := if o_autod o then comms_disconnect o w1 id else (w1, []) in
             (clear_rx_if w2 id (fun _ => true), l1 ++ l2))).
    { pose proof (http_send_response_ok o w s c Hi Ef') as G1.
      destruct (http_send_response o w c) as [[w1 l1] ok]. cbn [fst] in G1.
      destruct (o_inv o).
      - assert (G1' : ok3 s (w1, l1 ++ [LSend id 0 ok])) by (apply ok3_suffix; [reflexivity | exact G1]).
        pose proof (ok3_bind s (w1, l1 ++ [LSend id 0 ok]) (fun w' => comms_disconnect o w' id) G1' (fun s1 I1 => comms_disconnect_ok o _ s1 _ I1)) as G2.
        cbn [fst snd] in G2. destruct (comms_disconnect o w1 id) as [w2 l2]. rewrite <- app_assoc in G2.
        eapply ok3_event; [cbn; reflexivity | exact Hs | apply ok3_clear, G2].
      - destruct (o_autod o).
        + pose proof (ok3_bind s (w1, l1) (fun w' => comms_disconnect o w' id) G1 (fun s1 I1 => comms_disconnect_ok o _ s1 _ I1)) as G2.
          cbn [fst snd] in G2. destruct (comms_disconnect o w1 id) as [w2 l2]. apply ok3_clear, G2.
        + rewrite app_nil_r. apply ok3_clear, G1. }
    destruct r; try (apply ok3_refl, Hi); try exact Hinvalid.
    - (* EXPECT_CONTINUE *)
      destruct (o_cont o).
      + destruct (is_prefix _ _).
        * match goal with |- context [http_send o w ?C ?S ?B] =>
            pose proof (http_send_ok o w s c C S B Hi Ef' (like_set_tx _ _ _ _ _ _ (like_refl c))) as G; destruct (http_send o w C S B) as [[w1 l1] ok] end.
          cbn [fst] in G. eapply ok3_event; [cbn; reflexivity | exact Hs | apply ok3_suffix; [reflexivity | exact G]].
        * pose proof (http_send_response_ok o w s c Hi Ef') as G. destruct (http_send_response o w c) as [[w1 l1] ok]. cbn [fst] in G.
          eapply ok3_event; [cbn; reflexivity | exact Hs | apply ok3_suffix; [reflexivity | exact G]].
      + pose proof (http_send_response_ok o w s c Hi Ef') as G. destruct (http_send_response o w c) as [[w1 l1] ok]. exact G.
    - (* VALID *)
      destruct (negb (rq_is_trace (rv_req (c_rx c)))).
      + pose proof (app_request_ok w s c Hi Ef' Hh) as G. destruct (app_request recipe_of o w c) as [w1 l1]. apply ok3_clear, G.
      + destruct (o_trace o); [|exact Hinvalid].
        eapply quiet2_ok3; [exact Hi|]. split; [apply frame_set_undefined | reflexivity].
    - (* CHUNK *)
      match goal with |- ok3 s (let (_, _) := ?X in _) => assert (G : ok3 s X) end.
      { destruct (o_chunk o); [|apply ok3_refl, Hi].
        destruct (rc_is_last (rv_chunk (c_rx c)) && (o_app o =? 0)); [|eapply ok3_event; [cbn; reflexivity | exact Hs | apply ok3_refl, Hi]].
        destruct (c_pending c) as [|rp rest]; [eapply ok3_event; [cbn; reflexivity | exact Hs | apply ok3_refl, Hi]|].
        match goal with |- ok3 s (let (_, _) := app_respond o (upd w ?C) ?C rp in _) =>
          assert (F1 : frame w (upd w C)) by (eapply frame_upd; [cbn [c_id]; exact Ef' | reflexivity | cbn; auto | exact (Inv_nodup _ _ Hi)]);
          pose proof (app_respond_ok o (upd w C) s C rp (Inv_frame _ _ _ Hi F1) ltac:(cbn [upd set_conns w_conns]; apply (find_put_same' C _ c); exact Ef')) as G1;
          destruct (app_respond o (upd w C) C rp) as [w' l'] end.
        eapply ok3_event; [cbn; reflexivity | exact Hs | exact G1]. }
      match goal with |- ok3 s (let (_, _) := ?X in _) => destruct X as [w1 l1] end. apply ok3_clear, G.
  Qed.
End LoopOk.

Section StepOk.
  Variable recipe_of : str -> recipe.
  Variable o : sopts.

  Lemma server_loop_ok fuel : forall w s id buf, Inv w s -> ok3 s (server_loop recipe_of o fuel w id buf).
  Proof.
    induction fuel as [|fuel IH]; intros w s id buf Hi; destruct buf as [|b t]; cbn [server_loop]; try (apply ok3_refl, Hi);
      try (eapply quiet2_ok3; [exact Hi|]; split; [apply frame_set_undefined | reflexivity]).
    - destruct (find_conn id (w_conns w)) as [c|] eqn:Ef; [|apply ok3_refl, Hi].
      destruct (find_in _ _ _ Ef) as [Hc Hid]. pose proof Ef as Ef'. rewrite <- Hid in Ef'.
      destruct (c_in_http c) eqn:Eh; cbn [negb]; [|eapply quiet2_ok3; [exact Hi|]; split; [apply frame_set_undefined | reflexivity]].
      destruct (receive (o_cfg o) (c_rx c) (b :: t)) as [[rx1 rest] r].
      set (c1 := set_rx c rx1).
      assert (F1 : frame w (upd w c1)) by (eapply frame_upd; [exact Ef' | reflexivity | cbn; auto | exact (Inv_nodup _ _ Hi)]).
      pose proof (Inv_frame _ _ _ Hi F1) as I1.
      assert (Hh1 : forall c', find_conn id (w_conns (upd w c1)) = Some c' -> c_in_http c' = true).
      { intros c' Hf'. cbn [upd set_conns w_conns] in Hf'. rewrite <- Hid in Hf'. change (c_id c) with (c_id c1) in Hf'.
        rewrite (find_put_same' c1 _ c Ef') in Hf'. inversion Hf'; subst. exact Eh. }
      pose proof (server_dispatch_ok recipe_of o (upd w c1) s id r I1 Hh1) as G2.
      destruct (server_dispatch recipe_of o (upd w c1) id r) as [w2 l2].
      destruct (w_undefined w2); [exact G2|].
      destruct r; try exact G2;
        (pose proof (ok3_bind s (w2, l2) (fun w' => server_loop recipe_of o fuel w' id rest) G2 (fun s1 I1' => IH _ s1 id rest I1')) as G3;
         cbn [fst snd] in G3; destruct (server_loop recipe_of o fuel w2 id rest) as [w3 l3]; exact G3).
  Qed.

  Lemma Inv_ext w s s' : Inv w s -> (forall j, s' j = s j) -> Inv w s'.
  Proof.
    intros (N & B & F & H & P & X) E. split; [exact N | split; [exact B|]].
    split; [intros id Hid; rewrite E; apply F, Hid|].
    split; [intros c Hc; rewrite E; apply H, Hc|].
    split; [intros c Hc Hp; rewrite E; apply P; assumption|].
    intros id Hs. rewrite E in Hs. apply X, Hs.
  Qed.

  Lemma upd_like_frame w c c' : NoDup (map c_id (w_conns w)) -> find_conn (c_id c) (w_conns w) = Some c -> like c c' -> frame w (upd w c').
  Proof. intros Hn Hf (A & B & C). eapply frame_upd; [rewrite A; exact Hf | exact B | exact C | exact Hn]. Qed.

  (* handshake_callback with success / a plain TCP accept: the one place where `connected` is signalled *)
  Lemma connected_ok_ok w s c : Inv w s -> find_conn (c_id c) (w_conns w) = Some c -> s (c_id c) = Lnone ->
    ok2 s (connected_ok o w c).
  Proof.
    intros Hi Hf Hs. unfold connected_ok.
    set (c1 := mk_conn _ _ true _ _ _ _ false _ _ _ true _ _ _ _ _ _ _).
    assert (I1 : Inv (upd w c1) (lset s (c_id c) Lconn)).
    { change (c_id c) with (c_id c1). eapply Inv_upd; [exact Hi | exact Hf | split; reflexivity | cbn; discriminate]. }
    destruct (enable_reception_quiet (upd w c1) (c_id c) (Inv_nodup _ _ I1)) as [F2 Q2].
    destruct (enable_reception (upd w c1) (c_id c)) as [w1 l1]. cbn [fst snd] in *.
    exists (lset s (c_id c) Lconn). split; [|eapply Inv_frame; eassumption].
    change (life_run s (LConnected (c_id c) :: l1) = Some (lset s (c_id c) Lconn)). cbn [life_run life_step]. rewrite Hs. apply quiet_run, Q2.
  Qed.

  Lemma close_all_ok f : (forall w s c, Inv w s -> ok3 s (f w c)) -> forall ids w s, Inv w s -> ok3 s (close_all w ids f).
  Proof.
    intros Hf. induction ids as [|id t IH]; intros w s Hi; cbn [close_all]; [apply ok3_refl, Hi|].
    destruct (find_conn id (w_conns w)) as [c|]; [|apply IH, Hi].
    pose proof (ok3_bind s (f w c) (fun w' => close_all w' t f) (Hf w s c Hi) (fun s1 I1 => IH _ s1 I1)) as G.
    destruct (f w c) as [w1 l1]. cbn [fst snd] in G. destruct (close_all w1 t f) as [w2 l2]. exact G.
  Qed.

  Lemma server_close_ok w s : Inv w s -> ok3 s (server_close w).
  Proof. apply server_close_except_ok. Qed.

  Lemma NoDup_snoc (l : list nat) x : NoDup l -> ~ In x l -> NoDup (l ++ [x]).
  Proof.
    induction l as [|y t IH]; intros Hn Hx; cbn [app]; [constructor; [intros []|constructor]|].
    inversion Hn as [|? ? Hy Hn']; subst. constructor.
    - intros Hin. apply in_app_or in Hin. destruct Hin as [Hin | [<- | []]]; [exact (Hy Hin) | apply Hx; left; reflexivity].
    - apply IH; [exact Hn' | intros Hin; apply Hx; right; exact Hin].
  Qed.

  Lemma lset_same s id v : s id = v -> forall j, lset s id v j = s j.
  Proof. intros E j. unfold lset. destruct (Nat.eqb j id) eqn:Ej; [apply Nat.eqb_eq in Ej; subst j; symmetry; exact E | reflexivity]. Qed.

  Lemma ok2_of_quiet_upd w s c c' : Inv w s -> find_conn (c_id c) (w_conns w) = Some c -> like c c' -> ok2 s (upd w c', []).
  Proof. intros Hi Hf Hl. apply ok3_ok2. eapply quiet2_ok3; [exact Hi|]. split; [eapply upd_like_frame; [exact (Inv_nodup _ _ Hi) | exact Hf | exact Hl] | reflexivity]. Qed.

  Lemma step_ok w s e : Inv w s -> ok2 s (step recipe_of o w e).
  Proof.
    intros Hi. unfold step. destruct (w_undefined w); [apply ok3_ok2, ok3_refl, Hi|].
    destruct e.
    - (* accept *)
      destruct (w_alive w && w_open w && filter_ok); [|apply ok3_ok2, ok3_refl, Hi].
      set (id := S (w_next w)). set (c := new_conn (o_cfg o) id).
      set (w1 := mk_world (w_conns w ++ [c]) id _ _ _ _ _ _).
      assert (I1 : Inv w1 s).
      { destruct Hi as (N & B & F & H & P & X). unfold Inv, w1. cbn [w_conns w_next].
        split.
        { rewrite map_app. cbn [map c c_id new_conn]. apply NoDup_snoc; [exact N|]. intros Hin. apply in_map_iff in Hin. destruct Hin as [d [E Hd]]. specialize (B d Hd). unfold id in E. lia. }
        split; [intros d Hd; apply in_app_or in Hd; destruct Hd as [Hd | [<- | []]]; [specialize (B d Hd); unfold id; lia | cbn; lia]|].
        split; [intros j Hj; apply F; unfold id in Hj; lia|].
        split.
        { intros d Hd. apply in_app_or in Hd. destruct Hd as [Hd | [<- | []]]; [apply H, Hd|]. cbn [c c_id c_in_http new_conn]. rewrite (F id ltac:(unfold id; lia)). split; discriminate. }
        split; [intros d Hd Hp; apply in_app_or in Hd; destruct Hd as [Hd | [<- | []]]; [apply P; assumption | cbn in Hp; discriminate]|].
        intros j Hs. destruct (X j Hs) as [d [Hd E]]. exists d. split; [apply in_or_app; left; exact Hd | exact E]. }
      assert (Hf1 : find_conn id (w_conns w1) = Some c).
      { unfold w1. cbn [w_conns]. destruct Hi as (_ & B & _).
        assert (Hb : forall d, In d (w_conns w) -> c_id d <> id) by (intros d Hd E; specialize (B d Hd); unfold id in E; lia).
        revert Hb. generalize (w_conns w). induction l as [|x t IH]; intros Hb; cbn [app find_conn].
        - cbn [c new_conn c_id]. rewrite Nat.eqb_refl. reflexivity.
        - destruct (Nat.eqb (c_id x) id) eqn:E; [apply Nat.eqb_eq in E; exfalso; apply (Hb x (or_introl eq_refl) E) | apply IH; intros d Hd; apply Hb; right; exact Hd]. }
      assert (Hs1 : s id = Lnone) by (destruct Hi as (_ & _ & F & _); apply F; unfold id; lia).
      destruct (o_tls o).
      + (* TLS: the handshake is started; the connection has never been connected *)
        exists s. split; [reflexivity|]. cbn [fst].
        match goal with |- Inv (upd w1 ?C) s => assert (I2 : Inv (upd w1 C) (lset s (c_id C) Lnone)) end.
        { eapply Inv_upd; [exact I1 | cbn [c_id]; exact Hf1 | cbn; split; discriminate | reflexivity]. }
        eapply Inv_ext; [exact I2|]. intros j. symmetry. apply lset_same. exact Hs1.
      + pose proof (connected_ok_ok w1 s c I1 Hf1 Hs1) as [s' [R I']].
        destruct (connected_ok o w1 c) as [w2 l2]. exists s'. cbn [fst snd] in *. split; [exact R | exact I'].
    - (* handshake *)
      destruct (find_conn id (w_conns w)) as [c|] eqn:Ef; [|apply ok3_ok2; eapply quiet2_ok3; [exact Hi | split; [apply frame_refl | reflexivity]]].
      destruct (find_in _ _ _ Ef) as [Hc Hid]. pose proof Ef as Ef'. rewrite <- Hid in Ef'.
      destruct (live c && c_handshake_pending c) eqn:El; [|apply ok3_ok2; eapply quiet2_ok3; [exact Hi | split; [apply frame_refl | reflexivity]]].
      apply Bool.andb_true_iff in El. destruct El as [_ Hp].
      assert (Hs : s (c_id c) = Lnone) by (destruct Hi as (_ & _ & _ & _ & P & _); apply P; assumption).
      assert (Hfail : ok2 s (let c0 := mk_conn (c_id c) (c_transmitting c) (c_connected c) (c_disc_pending c) (c_shutdown_sent c)
                                    (c_closed c) (c_read_pending c) false (c_tls_shutdown_pending c) (c_write c)
                                    (c_in_comms c) (c_in_http c) (c_rx c) (c_tx_header c) (c_tx_body c)
                                    (c_pending c) (c_keep c) (c_chunks_left c) (c_last_due c) in
                  let '(w1, l1) := sock_close (upd w c0) c0 in
                  match find_conn id (w_conns w1) with
                  | Some c1 => let '(w2, l2) := drop_comms w1 c1 in (w2, l1 ++ l2)
                  | None => (w1, l1)
                  end)).
      { cbv zeta. set (c0 := mk_conn _ _ _ _ _ _ _ false _ _ _ _ _ _ _ _ _ _ _).
        assert (F0 : frame w (upd w c0)) by (eapply frame_upd; [exact Ef' | reflexivity | cbn; discriminate | exact (Inv_nodup _ _ Hi)]).
        pose proof (Inv_frame _ _ _ Hi F0) as I0.
        destruct (sock_close_quiet (upd w c0) c0 (Inv_nodup _ _ I0)) as [F1 Q1]; [cbn [upd set_conns w_conns]; apply (find_put_same' c0 _ c); exact Ef'|].
        destruct (sock_close (upd w c0) c0) as [w1 l1]. cbn [fst snd] in *.
        pose proof (Inv_frame _ _ _ I0 F1) as I1.
        destruct (find_conn id (w_conns w1)) as [c1|] eqn:Ef1; [|exists s; split; [apply quiet_run, Q1 | exact I1]].
        destruct (find_in _ _ _ Ef1) as [Hc1 Hid1].
        destruct (drop_comms_quiet w1 c1 (Inv_nodup _ _ I1)) as [F2 Q2]; [rewrite Hid1; exact Ef1 | eapply Inv_not_conn_http; [exact I1 | exact Hc1 | rewrite Hid1, <- Hid, Hs; discriminate]|].
        destruct (drop_comms w1 c1) as [w2 l2]. cbn [fst snd] in *.
        exists s. split; [apply quiet_run, quiet_app; assumption | eapply Inv_frame; eassumption]. }
      destruct e; try exact Hfail.
      + apply connected_ok_ok; assumption.
      + eapply ok2_of_quiet_upd; [exact Hi | exact Ef' | repeat split; cbn; auto; discriminate].
    - (* read *)
      destruct (find_conn id (w_conns w)) as [c|] eqn:Ef; [|apply ok3_ok2; eapply quiet2_ok3; [exact Hi | split; [apply frame_refl | reflexivity]]].
      destruct (find_in _ _ _ Ef) as [Hc Hid]. pose proof Ef as Ef'. rewrite <- Hid in Ef'.
      destruct (live c && c_read_pending c); [|apply ok3_ok2; eapply quiet2_ok3; [exact Hi | split; [apply frame_refl | reflexivity]]].
      set (c1 := mk_conn _ _ _ _ _ _ false _ _ _ _ _ _ _ _ _ _ _ _).
      assert (F1 : frame w (upd w c1)) by (eapply frame_upd; [exact Ef' | reflexivity | cbn; auto | exact (Inv_nodup _ _ Hi)]).
      pose proof (server_loop_ok (loop_fuel bytes) (upd w c1) s id bytes (Inv_frame _ _ _ Hi F1)) as G.
      destruct (server_loop recipe_of o (loop_fuel bytes) (upd w c1) id bytes) as [w1 l1].
      apply ok3_ok2.
      destruct (find_conn id (w_conns w1)) as [c2|]; [|exact G].
      destruct (live c2 && negb (c_shutdown_sent c2) && negb (w_undefined w1)); [|exact G].
      destruct G as [s1 [R1 [I1 M1]]]. cbn [fst snd] in *.
      destruct (enable_reception_quiet w1 id (Inv_nodup _ _ I1)) as [F2 Q2]. destruct (enable_reception w1 id) as [w2 l2]. cbn [fst snd] in *.
      exists s1. cbn [fst snd]. split; [rewrite life_run_app, R1; apply quiet_run, Q2 | split; [eapply Inv_frame; eassumption | exact M1]].
    - (* read error *)
      destruct (find_conn id (w_conns w)) as [c|] eqn:Ef; [|apply ok3_ok2; eapply quiet2_ok3; [exact Hi | split; [apply frame_refl | reflexivity]]].
      destruct (find_in _ _ _ Ef) as [Hc Hid]. pose proof Ef as Ef'. rewrite <- Hid in Ef'.
      destruct (live c && c_read_pending c); [|apply ok3_ok2; eapply quiet2_ok3; [exact Hi | split; [apply frame_refl | reflexivity]]].
      set (c1 := mk_conn _ _ _ _ _ _ false _ _ _ _ _ _ _ _ _ _ _ _).
      assert (F1 : frame w (upd w c1)) by (eapply frame_upd; [exact Ef' | reflexivity | cbn; auto | exact (Inv_nodup _ _ Hi)]).
      pose proof (Inv_frame _ _ _ Hi F1) as I1.
      apply ok3_ok2. destruct e; try (apply signal_error_ok, I1); apply ok3_refl, I1.
    - (* write done *)
      destruct (find_conn id (w_conns w)) as [c|] eqn:Ef; [|apply ok3_ok2; eapply quiet2_ok3; [exact Hi | split; [apply frame_refl | reflexivity]]].
      destruct (find_in _ _ _ Ef) as [Hc Hid]. pose proof Ef as Ef'. rewrite <- Hid in Ef'.
      destruct (c_write c) as [[slots snapshot]|]; [|apply ok3_ok2; eapply quiet2_ok3; [exact Hi | split; [apply frame_refl | reflexivity]]].
      destruct (live c); [|apply ok3_ok2; eapply quiet2_ok3; [exact Hi | split; [apply frame_refl | reflexivity]]].
      set (lw := if str_eqb _ snapshot then _ else _).
      assert (Hlw : quiet lw) by (unfold lw; destruct (str_eqb _ snapshot); reflexivity).
      match goal with |- context [upd w ?C] => set (c1 := C) end.
      assert (F1 : frame w (upd w c1)) by (eapply frame_upd; [exact Ef' | reflexivity | cbn; auto | exact (Inv_nodup _ _ Hi)]).
      pose proof (Inv_frame _ _ _ Hi F1) as I1.
      apply ok3_ok2.
      destruct (c_shutdown_sent c1).
      { pose proof (disconnected_ok (upd w c1) s id I1) as G. destruct (disconnected (upd w c1) id) as [w2 l2]. apply ok3_prefix; assumption. }
      destruct (c_disc_pending c1).
      { pose proof (comms_shutdown_ok o (upd w c1) s id I1) as G. destruct (comms_shutdown o (upd w c1) id) as [w2 l2]. apply ok3_prefix; assumption. }
      match goal with |- context [upd (upd w c1) ?C] => set (c2 := C) end.
      assert (Ef1 : find_conn (c_id c2) (w_conns (upd w c1)) = Some c1) by (cbn [upd set_conns w_conns]; apply (find_put_same' c1 _ c); exact Ef').
      assert (F2 : frame (upd w c1) (upd (upd w c1) c2)) by (eapply frame_upd; [exact Ef1 | reflexivity | cbn; auto | exact (Inv_nodup _ _ I1)]).
      pose proof (Inv_frame _ _ _ I1 F2) as I2.
      destruct (c_in_http c2) eqn:Eh2.
      + pose proof (app_on_sent_ok o (upd (upd w c1) c2) s id I2) as G. destruct (app_on_sent o (upd (upd w c1) c2) id) as [w2 l2].
        apply ok3_prefix; [exact Hlw|].
        assert (Hs : s id = Lconn).
        { rewrite <- Hid. apply (Inv_conn_state _ _ _ Hi Hc). exact Eh2. }
        eapply ok3_event; [cbn; reflexivity | exact Hs | exact G].
      + exists s. cbn [fst snd]. split; [apply quiet_run, Hlw | split; [exact I2 | auto]].
    - (* write error *)
      destruct (find_conn id (w_conns w)) as [c|] eqn:Ef; [|apply ok3_ok2; eapply quiet2_ok3; [exact Hi | split; [apply frame_refl | reflexivity]]].
      destruct (find_in _ _ _ Ef) as [Hc Hid]. pose proof Ef as Ef'. rewrite <- Hid in Ef'.
      destruct (c_write c); [|apply ok3_ok2; eapply quiet2_ok3; [exact Hi | split; [apply frame_refl | reflexivity]]].
      destruct (live c); [|apply ok3_ok2; eapply quiet2_ok3; [exact Hi | split; [apply frame_refl | reflexivity]]].
      match goal with |- context [upd w ?C] => set (c1 := C) end.
      assert (F1 : frame w (upd w c1)) by (eapply frame_upd; [exact Ef' | reflexivity | cbn; auto | exact (Inv_nodup _ _ Hi)]).
      pose proof (Inv_frame _ _ _ Hi F1) as I1.
      apply ok3_ok2.
      destruct e; try (apply ok3_refl, I1);
        (destruct (c_shutdown_sent c1); [apply disconnected_ok, I1 | first [apply signal_error_ok, I1 | apply ok3_refl, I1]]).
    - (* tls shutdown done *)
      destruct (find_conn id (w_conns w)) as [c|] eqn:Ef; [|apply ok3_ok2; eapply quiet2_ok3; [exact Hi | split; [apply frame_refl | reflexivity]]].
      destruct (find_in _ _ _ Ef) as [Hc Hid]. pose proof Ef as Ef'. rewrite <- Hid in Ef'.
      destruct (live c && c_tls_shutdown_pending c); [|apply ok3_ok2; eapply quiet2_ok3; [exact Hi | split; [apply frame_refl | reflexivity]]].
      match goal with |- context [upd w ?C] => set (c1 := C) end.
      assert (F1 : frame w (upd w c1)) by (eapply frame_upd; [exact Ef' | reflexivity | cbn; auto | exact (Inv_nodup _ _ Hi)]).
      pose proof (Inv_frame _ _ _ Hi F1) as I1.
      apply ok3_ok2. destruct e; try (apply disconnected_ok, I1); apply ok3_refl, I1.
    - (* aborted completions *)
      apply ok3_ok2. eapply quiet2_ok3; [exact Hi|]. split; [apply frame_same_conns; reflexivity|].
      cbn [snd]. unfold quiet. rewrite forallb_forall. intros x Hx. apply in_map_iff in Hx. destruct Hx as [p [<- _]]. reflexivity.
    - (* app respond *)
      destruct (find_conn id (w_conns w)) as [c|] eqn:Ef; [|apply ok3_ok2; eapply quiet2_ok3; [exact Hi | split; [apply frame_refl | reflexivity]]].
      destruct (find_in _ _ _ Ef) as [Hc Hid]. pose proof Ef as Ef'. rewrite <- Hid in Ef'.
      apply ok3_ok2.
      destruct (c_pending c) as [|rp rest].
      + destruct (c_in_http c); [apply app_respond_ok; assumption | eapply quiet2_ok3; [exact Hi | split; [apply frame_refl | reflexivity]]].
      + match goal with |- context [upd w ?C] => set (c1 := C) end.
        assert (F1 : frame w (upd w c1)) by (eapply frame_upd; [exact Ef' | reflexivity | cbn; auto | exact (Inv_nodup _ _ Hi)]).
        destruct (c_in_http c).
        * apply app_respond_ok; [exact (Inv_frame _ _ _ Hi F1) | cbn [upd set_conns w_conns]; apply (find_put_same' c1 _ c); exact Ef'].
        * eapply quiet2_ok3; [exact Hi | split; [exact F1 | reflexivity]].
    - (* app disconnect *)
      destruct (find_conn id (w_conns w)) as [c|] eqn:Ef; [|apply ok3_ok2, ok3_refl, Hi].
      apply ok3_ok2. destruct (c_in_http c).
      + pose proof (comms_disconnect_ok o w s id Hi) as G. destruct (comms_disconnect o w id) as [w1 l1].
        change (LAppDisconnect id :: l1) with ([LAppDisconnect id] ++ l1). apply ok3_prefix; [reflexivity | exact G].
      + destruct (c_connected c); [eapply quiet2_ok3; [exact Hi | split; [apply frame_refl | reflexivity]] | apply ok3_refl, Hi].
    - (* server shutdown *)
      destruct (w_alive w); [|apply ok3_ok2, ok3_refl, Hi]. apply ok3_ok2.
      destruct (negb (Nat.eqb (count_http w) 0)).
      + match goal with |- context [close_all ?W ?I ?F] =>
          assert (IW : Inv W s) by (eapply Inv_frame; [exact Hi | apply frame_same_conns; reflexivity]);
          pose proof (close_all_ok F (fun w' s' c' I' => comms_disconnect_ok o w' s' (c_id c') I') I W s IW) as G;
          destruct (close_all W I F) as [w2 l2] end.
        change (LServer 0 :: l2) with ([LServer 0] ++ l2). apply ok3_prefix; [reflexivity | exact G].
      + pose proof (server_close_ok w s Hi) as G. destruct (server_close w) as [w1 l1].
        change (LServer 0 :: l1) with ([LServer 0] ++ l1). apply ok3_prefix; [reflexivity | exact G].
    - (* server close *)
      destruct (w_alive w); [|apply ok3_ok2, ok3_refl, Hi]. apply ok3_ok2.
      pose proof (server_close_ok w s Hi) as G. destruct (server_close w) as [w1 l1].
      change (LServer 1 :: l1) with ([LServer 1] ++ l1). apply ok3_prefix; [reflexivity | exact G].
    - (* destroy *)
      destruct (w_alive w); [|apply ok3_ok2; eapply quiet2_ok3; [exact Hi | split; [apply frame_refl | reflexivity]]]. apply ok3_ok2.
      pose proof (server_close_ok w s Hi) as G. destruct (server_close w) as [w1 l1].
      change (LServer 2 :: l1) with ([LServer 2] ++ l1). apply ok3_prefix; [reflexivity|].
      eapply ok3_frame_after; [exact G | apply frame_same_conns; reflexivity].
    - (* tick *)
      apply ok3_ok2. eapply quiet2_ok3; [exact Hi | split; [apply frame_refl | reflexivity]].
  Qed.

  Theorem run_ok : forall evs w s, Inv w s -> ok2 s (run recipe_of o w evs).
  Proof.
    induction evs as [|[name e] t IH]; intros w s Hi; cbn [run]; [apply ok3_ok2, ok3_refl, Hi|].
    destruct (step_ok w s e Hi) as [s1 [R1 I1]]. destruct (step recipe_of o w e) as [w1 l1]. cbn [fst snd] in *.
    destruct (IH w1 s1 I1) as [s2 [R2 I2]]. destruct (run recipe_of o w1 t) as [w2 l2]. cbn [fst snd] in *.
    exists s2. cbn [fst snd]. split; [|exact I2].
    cbn [life_run life_step]. rewrite life_run_app, R1. cbn [app life_run].
    destruct (w_alive w1); cbn [life_step]; exact R2.
  Qed.
End StepOk.

Lemma Inv_init : Inv w_init (fun _ => Lnone).
Proof.
  unfold Inv, w_init. cbn [w_conns w_next]. split; [constructor|]. split; [intros c []|]. split; [reflexivity|].
  split; [intros c []|]. split; [intros c []|]. intros id H. discriminate.
Qed.

(* over every history, the lifecycle events of every connection are paired *)
Theorem lifecycle_paired recipe_of o evs : life_run (fun _ => Lnone) (snd (run recipe_of o w_init evs)) <> None.
Proof. destruct (run_ok recipe_of o evs w_init _ Inv_init) as [s' [R _]]. rewrite R. discriminate. Qed.
