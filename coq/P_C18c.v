(* P_C18c.v — the locking protocol the source follows (Gen_Locks.v is regenerated from
   thread/threadsafe_hash_map.hpp on every run) and what it means for threads that run the public
   member functions. *)
From Coq Require Import List String Bool Arith ZArith Lia.
From Via Require Import M_Locks M_Conc P_Conc Gen_Locks.
Import ListNotations.

(* every public member function, for every bucket of the default map: accesses under a lock of their
   bucket, writes under an exclusive one, ascending acquisition, two-phase, all released *)
Lemma source_follows_protocol : api_ok methods api default_buckets = true.
Proof. vm_compute. reflexivity. Qed.

(* the same for other bucket counts the template may be instantiated with *)
Lemma source_follows_protocol_small : forallb (api_ok methods api) [1; 2; 3; 7; 31] = true.
Proof. vm_compute. reflexivity. Qed.

Definition api_op (name : string) (own : nat) (wf : nat -> view_t -> bdata) : op :=
  {| o_acts := f_acts (program methods default_buckets name own); o_wf := wf |}.

Lemma api_op_wl name own wf : In name api -> own < default_buckets -> wl [] false (o_acts (api_op name own wf)) = true.
Proof.
  intros Hn Ho. pose proof source_follows_protocol as H. unfold api_ok in H.
  rewrite forallb_forall in H. specialize (H name Hn). rewrite forallb_forall in H.
  specialize (H own). rewrite in_seq in H. assert (Hr : 0 <= own < 0 + default_buckets) by lia.
  specialize (H Hr). apply andb_true_iff in H. destruct H as [_ H]. exact H.
Qed.

(* a thread whose operations are all calls of public member functions on keys of the map *)
Definition api_thread (th : thread) : Prop :=
  t_cur th = [] /\ t_held th = [] /\ (forall b, t_view th b = None) /\
  Forall (fun o => exists name own wf, In name api /\ own < default_buckets /\ o = api_op name own wf) (t_todo th).

Definition api_init (s : cstate) : Prop := (forall b, c_locks s b = []) /\ (forall t, api_thread (c_thr s t)).

Lemma api_init_cinit s : api_init s -> cinit s.
Proof.
  intros [HL HT]. split; [exact HL|]. intros t. destruct (HT t) as [H1 [H2 [H3 H4]]].
  repeat split; try assumption. rewrite Forall_forall in *. intros o Ho.
  destruct (H4 o Ho) as [name [own [wf [Hn [Hown ->]]]]]. apply api_op_wl; assumption.
Qed.

Lemma api_reachable_inv s sched : api_init s -> Inv (crun sched s).
Proof. intros H. apply crun_inv, init_inv, api_init_cinit, H. Qed.
