(* Properties_C11.v — C11: shutdown, close and destruction are safe at every moment.
   On the model: after close() or destruction, at any point of any history, no connection is retained
   and nothing is left pending on a socket (every pending operation has become an aborted
   completion that is delivered harmlessly). *)
From Via Require Import M_Char M_Encode M_Parse M_Receive M_Server P_Server.
From Via Require Import M_Client P_Client.
Local Open Scope N_scope.

From Via Require Import P_C09 P_Shapes.

Theorem C11_close_leaves_nothing : forall w, Forall conn_ok (w_conns w) ->
  let w1 := fst (server_close w) in
  count_http w1 = 0%nat /\ count_comms w1 = 0%nat /\ pending_ops w1 = [].
Proof. exact server_close_leaves_nothing. Qed.

(* ---- the client ---- *)
(* over every event history of the client state machine (completions in any order and with any result, late
   completions of cancelled operations, any application calls): a disconnected event is only ever the first
   one after a connected event, so a connection is never reported twice *)
Theorem C11_client_disconnection_at_most_once : forall o es, disc_ok false (snd (k_run o (cl_init o) es)) = true.
Proof. exact client_disconnection_signalled_at_most_once. Qed.

(* close() and the destructor report an open connection once and leave nothing pending on the socket *)
Theorem C11_client_close_reports : forall o d k, k_connected k = true -> k_open k = true ->
  let r := k_client_close o d k in
  k_connected (fst r) = false /\ k_open (fst r) = false /\ k_read_pending (fst r) = false /\ k_write (fst r) = None /\
  k_connect_pending (fst r) = false /\ k_handshake_pending (fst r) = false /\ k_tls_sd_pending (fst r) = false /\
  length (filter is_disc (snd r)) = 1%nat.
Proof. exact client_close_reports. Qed.

(* whatever completes after the client was destroyed, the application is not called *)
Theorem C11_client_silent_after_destruction : forall o es k, k_alive k = false -> k_undefined k = false ->
  forallb silent (snd (k_run o k es)) = true.
Proof. intros o es k. exact (dead_run_silent o es k). Qed.

Print Assumptions C11_close_leaves_nothing.
Print Assumptions C11_client_disconnection_at_most_once.
Print Assumptions C11_client_close_reports.
Print Assumptions C11_client_silent_after_destruction.
