(* Properties_C11.v — C11: shutdown, close and destruction are safe at every moment.
   On the model: after close() or destruction, at any point of any history, no connection is retained
   and nothing is left pending on a socket (every pending operation has become an aborted
   completion that is delivered harmlessly). *)
From Via Require Import M_Char M_Encode M_Parse M_Receive M_Server P_Server.
Local Open Scope N_scope.

From Via Require Import P_C09 P_Shapes.

Theorem C11_close_leaves_nothing : forall w, Forall conn_ok (w_conns w) ->
  let w1 := fst (server_close w) in
  count_http w1 = 0%nat /\ count_comms w1 = 0%nat /\ pending_ops w1 = [].
Proof. exact server_close_leaves_nothing. Qed.

Print Assumptions C11_close_leaves_nothing.
