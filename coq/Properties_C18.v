(* Properties_C18.v — C18: the concurrent map behaves like an ordinary map.
   Sequential half: every operation sequence on the bucketed map is a run of the ordinary-map
   specification (spec_step: insert/erase/find/empty/data/clear on a function Z -> option Z).
   Concurrent half: the lock protocol is regenerated from the source (Gen_Locks.v); the C18_conc_*
   theorems hold for every schedule of any number of threads calling the public member functions. *)
From Via Require Import M_HashMap P_C18 M_Locks M_Conc P_Conc Gen_Locks P_C18c.
From Coq Require Import String.
Local Open Scope Z_scope.

(* every sequential history, any hash function, any positive number of buckets *)
Theorem C18_seq_refines : forall (h : Z -> Z) (n : nat) (ops : list hop),
  (0 < n)%nat -> spec_run (fun _ => None) ops (hm_run (hm_empty_map h n) ops).
Proof. exact C18_seq_refines_lemma. Qed.

(* one step from any well-formed state (sorted buckets, keys in their own bucket) *)
Theorem C18_step_refines : forall m s o, wf m -> R m s ->
  exists s', spec_step s o s' (snd (hm_step m o)) /\ R (fst (hm_step m o)) s' /\ wf (fst (hm_step m o)).
Proof. exact step_refines. Qed.

(* erase removes only the given key, and nothing when it is absent *)
Theorem C18_erase_only_key : forall m k, wf m -> forall k', k' <> k -> abs (hm_erase m k) k' = abs m k'.
Proof. exact C18_erase_only_key_lemma. Qed.

Theorem C18_erase_removes_key : forall m k, wf m -> abs (hm_erase m k) k = None.
Proof. intros m k H. rewrite abs_erase by exact H. unfold P_C18.upd. rewrite Z.eqb_refl. reflexivity. Qed.

(* non-vacuity: a reachable state with an adjacent larger key in the same bucket; erasing the
   absent key 2 leaves 3 in place (the historical failing history) *)
Example C18_example_erase_absent :
  hm_run (hm_empty_map id_hash 1) [OInsert 1 10; OInsert 3 30; OErase 2; OFind 3; OData]
  = [RUnit; RUnit; RUnit; RPair (3, 30); RList [(1, 10); (3, 30)]].
Proof. vm_compute. reflexivity. Qed.

Example C18_example_wf : wf (hm_insert (hm_insert (hm_empty_map id_hash 2) 1 10) 3 30).
Proof. apply wf_insert, wf_insert, wf_init. lia. Qed.

(* ---- concurrent half ---- *)
Local Close Scope Z_scope.
Local Open Scope nat_scope.
(* the member functions as they are written now follow the protocol (checked by computation over the
   statements translate/locks.py read off the AST) *)
Theorem C18_conc_source_follows_protocol : api_ok methods api default_buckets = true.
Proof. exact source_follows_protocol. Qed.

(* an exclusive holder of a bucket is its only holder *)
Theorem C18_conc_exclusive_is_alone : forall s0 sched, api_init s0 ->
  forall b t u k, In (b, Ex) (t_held (c_thr (crun sched s0) t)) -> In (b, k) (t_held (c_thr (crun sched s0) u)) -> u = t.
Proof. intros s0 sched H. apply inv_exclusive, api_reachable_inv, H. Qed.

(* what a thread has read from a bucket it still holds is what the bucket contains now *)
Theorem C18_conc_view_is_current : forall s0 sched, api_init s0 ->
  forall t b d, t_view (c_thr (crun sched s0) t) b = Some d -> holds b (t_held (c_thr (crun sched s0) t)) = true ->
  c_data (crun sched s0) b = d.
Proof. intros s0 sched H. apply inv_V, api_reachable_inv, H. Qed.

(* empty() / data(): once every bucket has been read under its lock, the views together are the map as
   it is at this instant *)
Theorem C18_conc_snapshot_is_atomic : forall s0 sched, api_init s0 -> forall t bs,
  (forall b, In b bs -> holds b (t_held (c_thr (crun sched s0) t)) = true /\ t_view (c_thr (crun sched s0) t) b <> None) ->
  map (t_view (c_thr (crun sched s0) t)) bs = map (fun b => Some (c_data (crun sched s0) b)) bs.
Proof. intros s0 sched H. apply inv_snapshot, api_reachable_inv, H. Qed.

(* no step of another thread changes a bucket a thread holds a lock on *)
Theorem C18_conc_locked_bucket_is_stable : forall s0 sched, api_init s0 -> forall t u b s',
  holds b (t_held (c_thr (crun sched s0) t)) = true -> u <> t -> cstep (crun sched s0) u = Some s' ->
  c_data s' b = c_data (crun sched s0) b.
Proof. intros s0 sched H. apply inv_stable, api_reachable_inv, H. Qed.

(* insert / erase / clear: what is written is computed from the bucket's current contents and nothing
   else changes: an atomic read-modify-write *)
Theorem C18_conc_write_is_atomic : forall s0 sched, api_init s0 -> forall t b r s',
  t_cur (c_thr (crun sched s0) t) = Wr b :: r -> cstep (crun sched s0) t = Some s' ->
  c_data s' b = t_wf (c_thr (crun sched s0) t) b (t_view (c_thr (crun sched s0) t)) /\
  (forall b', b' <> b -> c_data s' b' = c_data (crun sched s0) b') /\
  (forall b' d, t_view (c_thr (crun sched s0) t) b' = Some d -> holds b' (t_held (c_thr (crun sched s0) t)) = true ->
                d = c_data (crun sched s0) b').
Proof. intros s0 sched H. apply inv_write, api_reachable_inv, H. Qed.

(* while any of finitely many threads has work left, some thread can move *)
Theorem C18_conc_no_deadlock : forall s0 sched N, api_init s0 ->
  (forall t, N <= t -> t_cur (c_thr (crun sched s0) t) = []) ->
  (exists t, t_cur (c_thr (crun sched s0) t) <> [] \/ t_todo (c_thr (crun sched s0) t) <> []) ->
  exists u, enabled (crun sched s0) u = true.
Proof. intros s0 sched N H. apply no_deadlock, api_reachable_inv, H. Qed.

(* non-vacuity: thread 0 inserts (0,5) while thread 1 takes a snapshot; under this schedule the reader
   holds all 19 buckets before the writer gets bucket 0 *)
Definition ex_ins : nat -> view_t -> bdata := fun _ _ => [(0, 5)%Z].
Definition ex_thread (todo : list op) : thread :=
  {| t_cur := []; t_wf := fun _ _ => []; t_view := fun _ => None; t_held := []; t_rel := false; t_todo := todo |}.
Definition ex_s0 : cstate :=
  {| c_data := fun _ => []; c_locks := fun _ => [];
     c_thr := fun t => match t with
                       | O => ex_thread [api_op "insert" 0 ex_ins]
                       | S O => ex_thread [api_op "data" 0 (fun _ _ => [])]
                       | _ => ex_thread [] end |}.
Example C18_conc_example_init : api_init ex_s0.
Proof.
  split; [reflexivity|]. intros [|[|t]]; (split; [reflexivity|]); (split; [reflexivity|]); (split; [reflexivity|]); simpl.
  - constructor; [|constructor]. exists "insert"%string, O, ex_ins. repeat split. vm_compute. tauto. vm_compute. lia.
  - constructor; [|constructor]. exists "data"%string, O, (fun _ _ => []). repeat split. vm_compute. tauto. vm_compute. lia.
  - constructor.
Qed.
Example C18_conc_example_run :
  let s := crun (repeat 1 20 ++ [0; 0; 0] ++ repeat 1 57 ++ repeat 0 10) ex_s0 in
  c_data s 0 = [(0, 5)%Z] /\ t_view (c_thr s 1) 0 = Some [] /\ t_cur (c_thr s 0) = [] /\ t_cur (c_thr s 1) = [].
Proof. vm_compute. repeat split. Qed.

Print Assumptions C18_seq_refines.
Print Assumptions C18_step_refines.
Print Assumptions C18_erase_only_key.
Print Assumptions C18_conc_source_follows_protocol.
Print Assumptions C18_conc_exclusive_is_alone.
Print Assumptions C18_conc_view_is_current.
Print Assumptions C18_conc_snapshot_is_atomic.
Print Assumptions C18_conc_locked_bucket_is_stable.
Print Assumptions C18_conc_write_is_atomic.
Print Assumptions C18_conc_no_deadlock.
