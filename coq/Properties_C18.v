(* Properties_C18.v — C18: the concurrent map behaves like an ordinary map.
   Sequential half: every operation sequence on the bucketed map is a run of the ordinary-map
   specification (spec_step: insert/erase/find/empty/data/clear on a function Z -> option Z).
   Concurrent half (lock protocol regenerated from the source): see the theorems imported from
   P_C18c below. *)
From Via Require Import M_HashMap P_C18.
Local Open Scope Z_scope.

(* every sequential history, any hash function, any positive number of buckets *)
Theorem C18_seq_refines : forall (h : Z -> Z) (n : nat) (ops : list hop),
  (0 < n)%nat -> spec_run (fun _ => None) ops (hm_run (hm_empty_map h n) ops).
Proof. exact C18_seq_refines_lemma. Qed.

(* one step from any well-formed state (sorted buckets, keys in their own bucket) *)
Theorem C18_step_refines : forall m s o, wf m -> R m s ->
  exists s', spec_step s o s' (snd (hm_step m o)) /\ R (fst (hm_step m o)) s' /\ wf (fst (hm_step m o)).
Proof. exact step_refines. Qed.

(* erase removes only the given key, and nothing when it is absent *)
Theorem C18_erase_only_key : forall m k, wf m -> forall k', k' <> k -> abs (hm_erase m k) k' = abs m k'.
Proof. exact C18_erase_only_key_lemma. Qed.

Theorem C18_erase_removes_key : forall m k, wf m -> abs (hm_erase m k) k = None.
Proof. intros m k H. rewrite abs_erase by exact H. unfold upd. rewrite Z.eqb_refl. reflexivity. Qed.

(* non-vacuity: a reachable state with an adjacent larger key in the same bucket; erasing the
   absent key 2 leaves 3 in place (the historical failing history) *)
Example C18_example_erase_absent :
  hm_run (hm_empty_map id_hash 1) [OInsert 1 10; OInsert 3 30; OErase 2; OFind 3; OData]
  = [RUnit; RUnit; RUnit; RPair (3, 30); RList [(1, 10); (3, 30)]].
Proof. vm_compute. reflexivity. Qed.

Example C18_example_wf : wf (hm_insert (hm_insert (hm_empty_map id_hash 2) 1 10) 3 30).
Proof. apply wf_insert, wf_insert, wf_init. lia. Qed.

Print Assumptions C18_seq_refines.
Print Assumptions C18_step_refines.
Print Assumptions C18_erase_only_key.
