(* P_C04.v — what the server hands to the socket for a response with a body is tx_response::message followed by the
   body: the bytes C08's round-trip theorems show the library's own response receiver reads back as one valid response. *)
From Via Require Import M_Char M_Encode M_Parse M_Receive M_Server P_Server.
From Coq Require Import Lia ZifyBool ZifyNat ZifyN.
Local Open Scope N_scope.

Lemma response_write_bytes o w c rp :
  c_transmitting c = false -> c_connected c = true ->
  rp_ov rp = 1 ->
  let reason := match reason_phrase (rp_status rp) with [] => custom_reason | _ => [] end in
  let resp0 := tx_response_of_reason reason (rp_status rp) (rp_hdrs rp) in
  let body := body_of (w_reqno w) (rp_len rp) in
  tx_response_is_valid resp0 = true ->
  rv_is_head (c_rx c) = false -> content_permitted (rp_status rp) = true ->
  exists l, snd (app_respond o w c rp) =
            LWrite (c_id c) (response_message (with_version c resp0) (nlen body) ++ body) :: l.
Proof.
  intros Ht Hc Hov reason resp0 body Hv Hh Hp.
  rewrite (head_response_same_header o w c rp _ body Hov Hv eq_refl eq_refl).
  rewrite Hh, Hp. cbn [orb negb].
  unfold http_send.
  set (c1 := set_tx (set_tx c _ _ _ _) _ _ _ _).
  assert (Ht1 : c_transmitting c1 = false) by exact Ht.
  assert (Hc1 : c_connected c1 = true) by exact Hc.
  unfold send_data. rewrite Ht1, Hc1.
  assert (Hb : slots_bytes c1 [SHeader; SBody] = response_message (with_version c resp0) (nlen body) ++ body).
  { unfold slots_bytes, c1. cbn [map slot_bytes concat set_tx c_tx_header c_tx_body]. rewrite app_nil_r. reflexivity. }
  rewrite Hb.
  destruct (rq_keep_alive (rv_req (c_rx (set_tx c (c_rx c) _ body (c_keep c)))) || (rp_status rp =? code_CONTINUE)).
  - cbn [snd app]. eexists. reflexivity.
  - destruct (comms_disconnect o _ _) as [w2 l2]. cbn [snd app]. eexists. reflexivity.
Qed.
