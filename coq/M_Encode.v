(* M_Encode.v — the encoding side: header_field::to_header / content_length / chunked_encoding,
   are_headers_split, response_line::to_string, tx_response::message, tx_request::message,
   chunk_header::to_string, last_chunk::to_string.   Definitions only. *)
From Via Require Export M_Char.
Local Open Scope N_scope.

Definition to_header (name value : str) : str := name ++ hf_SEPARATOR ++ value ++ CRLF.

Definition content_length_line (n : N) : str :=
  hf_HEADER_CONTENT_LENGTH ++ hf_SEPARATOR ++ to_dec_string n ++ CRLF.

Definition chunked_encoding_line : str :=
  hf_HEADER_TRANSFER_ENCODING ++ hf_SEPARATOR ++ hf_CHUNKED ++ CRLF.

Definition server_header_line : str := to_header hf_HEADER_SERVER hf_SERVER_NAME.
Definition content_http_header_line : str := to_header hf_HEADER_CONTENT_TYPE hf_MESSAGE_HTTP.

(* header_field::standard_name(id) / lowercase_name(id); id = index in declaration order *)
Definition standard_name (i : nat) : str := fst (nth i header_table ([], [])).
Definition lowercase_name (i : nat) : str := snd (nth i header_table ([], [])).

(* headers.hpp are_headers_split: a two character window (pprev, prev) *)
Fixpoint split_scan (pprev prev : byte) (hs : str) : bool :=
  match hs with
  | [] => false
  | c :: t =>
      if (c =? 10) && ((prev =? 10) || ((prev =? 13) && (pprev =? 10))) then true
      else split_scan prev c t
  end.

(* the initial window is read from the source (Gen_Tables.split_window_init) *)
Definition are_headers_split (hs : str) : bool :=
  split_scan (fst split_window_init) (snd split_window_init) hs.

(* response_status::reason_phrase(code) *)
Fixpoint lookup_status (tbl : list (N * str)) (s : N) : str :=
  match tbl with
  | [] => []
  | (k, v) :: t => if k =? s then v else lookup_status t s
  end.
Definition reason_phrase (s : N) : str := lookup_status status_table s.

Record tx_response := mk_tx_response
  { rs_status : N; rs_reason : str; rs_major : byte; rs_minor : byte; rs_headers : str }.

(* tx_response(code, header_string) and tx_response(reason, status, header_string) *)
Definition tx_response_of_code (s : N) (hs : str) : tx_response :=
  mk_tx_response s (reason_phrase s) 49 49 hs.
Definition tx_response_of_reason (reason : str) (s : N) (hs : str) : tx_response :=
  mk_tx_response s (match reason with [] => reason_phrase s | _ => reason end) 49 49 hs.

Definition response_line_string (r : tx_response) : str :=
  http_version (rs_major r) (rs_minor r) ++ [32] ++ to_dec_string (rs_status r) ++ [32]
  ++ rs_reason r ++ CRLF.

Definition tx_response_is_valid (r : tx_response) : bool := negb (are_headers_split (rs_headers r)).

Definition add_header (r : tx_response) (name value : str) : tx_response :=
  mk_tx_response (rs_status r) (rs_reason r) (rs_major r) (rs_minor r)
                 (rs_headers r ++ to_header name value).

(* whether message() appends a Content-Length line *)
Definition response_adds_content_length (r : tx_response) : bool :=
  negb (contains hf_HEADER_CONTENT_LENGTH (rs_headers r))
  && negb (contains hf_HEADER_TRANSFER_ENCODING (rs_headers r))
  && content_permitted (rs_status r).

Definition response_message (r : tx_response) (content_length : N) : str :=
  response_line_string r ++ rs_headers r
  ++ (if response_adds_content_length r then content_length_line content_length else [])
  ++ CRLF.

(* tx_request *)
Record tx_request := mk_tx_request
  { tq_method : str; tq_uri : str; tq_major : byte; tq_minor : byte; tq_headers : str }.

Definition request_line_string (r : tx_request) : str :=
  tq_method r ++ [32] ++ tq_uri r ++ [32] ++ http_version (tq_major r) (tq_minor r) ++ CRLF.

Definition request_adds_content_length (r : tx_request) : bool :=
  negb (contains hf_HEADER_CONTENT_LENGTH (tq_headers r))
  && negb (contains hf_HEADER_TRANSFER_ENCODING (tq_headers r)).

Definition request_message (r : tx_request) (content_length : N) : str :=
  request_line_string r ++ tq_headers r
  ++ (if request_adds_content_length r then content_length_line content_length else [])
  ++ CRLF.

(* the builder interface of tx_request / tx_response: every member function that changes the header string *)
Inductive bop :=
  | BSet (s : str)                     (* set_header_string *)
  | BAddId (i : nat) (v : str)         (* add_header(header_field::id, value) *)
  | BAddFree (n v : str)               (* add_header(name, value) *)
  | BAddCL (n : N)                     (* add_content_length_header *)
  | BServer | BContentHttp.            (* tx_response::add_server_header / add_content_http_header *)

Definition bop_headers (h : str) (b : bop) : str :=
  match b with
  | BSet s => s
  | BAddId i v => h ++ to_header (standard_name i) v
  | BAddFree n v => h ++ to_header n v
  | BAddCL n => h ++ content_length_line n
  | BServer => h ++ server_header_line
  | BContentHttp => h ++ content_http_header_line
  end.

Definition request_ops_message (m u : str) (ma mi : byte) (h0 : str) (ops : list bop) (n : N) : str :=
  request_message (mk_tx_request m u ma mi (fold_left bop_headers ops h0)) n.

Definition response_ops (reason : str) (status : N) (h0 : str) (ops : list bop) : tx_response :=
  let r := tx_response_of_reason reason status h0 in
  mk_tx_response (rs_status r) (rs_reason r) (rs_major r) (rs_minor r) (fold_left bop_headers ops h0).

(* chunk_header::to_string, last_chunk::to_string *)
Definition ext_string (ext : str) : str :=
  match ext with [] => [] | _ => [59; 32] ++ ext end.

Definition chunk_header_string (size : N) (ext : str) : str :=
  to_hex_string size ++ ext_string ext ++ CRLF.

Definition last_chunk_string (ext trailers : str) : str :=
  [48] ++ ext_string ext ++ CRLF ++ trailers ++ CRLF.
