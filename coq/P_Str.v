(* P_Str.v — the model's response_message / request_message (M_Encode.v), on which the framing theorems of C04 / C14 and the
   round trips of C08 rest, are what tx_response::message / tx_request::message compute - as translated from clang's AST
   on this run (Gen_Parse.v) under the meaning of M_Str.v. *)
From Via Require Import M_Char M_Parse M_Encode M_Imp M_Loop M_Str Gen_Parse.
From Coq Require Import List NArith Bool Lia.
Import ListNotations.
Local Open Scope N_scope.

Theorem response_message_is_the_source r n :
  srun (mk_senv (response_line_string r) (rs_headers r) (rs_status r) n) tx_response_message_src = Some (response_message r n).
Proof.
  unfold srun, tx_response_message_src, response_message, response_adds_content_length.
  cbn [sexec sbeval spiece_eval set_nth_b nth ss_out ss_locals se_line se_headers se_status se_content_length snd].
  destruct (negb (contains hf_HEADER_CONTENT_LENGTH (rs_headers r))); cbn [andb];
    [destruct (negb (contains hf_HEADER_TRANSFER_ENCODING (rs_headers r))); cbn [andb];
       [destruct (content_permitted (rs_status r))|]|];
    cbn [sexec spiece_eval ss_out ss_locals snd]; rewrite <- ?app_assoc, ?app_nil_l; reflexivity.
Qed.

Theorem request_message_is_the_source r n :
  srun (mk_senv (request_line_string r) (tq_headers r) 0 n) tx_request_message_src = Some (request_message r n).
Proof.
  unfold srun, tx_request_message_src, request_message, request_adds_content_length.
  cbn [sexec sbeval spiece_eval set_nth_b nth ss_out ss_locals se_line se_headers se_status se_content_length snd].
  destruct (negb (contains hf_HEADER_CONTENT_LENGTH (tq_headers r))); cbn [andb];
    [destruct (negb (contains hf_HEADER_TRANSFER_ENCODING (tq_headers r))); cbn [andb]|];
    cbn [sexec spiece_eval ss_out ss_locals snd]; rewrite <- ?app_assoc, ?app_nil_l; reflexivity.
Qed.
