(* P_Str.v — the model's response_message / request_message (M_Encode.v), on which the framing theorems of C04 / C14 and the
   round trips of C08 rest, are what tx_response::message / tx_request::message compute - as translated from clang's AST
   on this run (Gen_Parse.v) under the meaning of M_Str.v. *)
From Via Require Import M_Char M_Parse M_Encode M_Imp M_Loop M_Str Gen_Parse.
From Coq Require Import List NArith Bool Lia.
Import ListNotations.
Local Open Scope N_scope.

Theorem response_message_is_the_source r n :
  srun (mk_senv (response_line_string r) (rs_headers r) (rs_status r) n) tx_response_message_src = Some (response_message r n).
Proof.
  unfold srun, tx_response_message_src, response_message, response_adds_content_length.
  cbn [sexec sbeval spiece_eval set_nth_b nth ss_out ss_locals se_line se_headers se_status se_content_length snd].
  destruct (negb (contains hf_HEADER_CONTENT_LENGTH (rs_headers r))); cbn [andb];
    [destruct (negb (contains hf_HEADER_TRANSFER_ENCODING (rs_headers r))); cbn [andb];
       [destruct (content_permitted (rs_status r))|]|];
    cbn [sexec spiece_eval ss_out ss_locals snd]; rewrite <- ?app_assoc, ?app_nil_l; reflexivity.
Qed.

Theorem request_message_is_the_source r n :
  srun (mk_senv (request_line_string r) (tq_headers r) 0 n) tx_request_message_src = Some (request_message r n).
Proof.
  unfold srun, tx_request_message_src, request_message, request_adds_content_length.
  cbn [sexec sbeval spiece_eval set_nth_b nth ss_out ss_locals se_line se_headers se_status se_content_length snd].
  destruct (negb (contains hf_HEADER_CONTENT_LENGTH (tq_headers r))); cbn [andb];
    [destruct (negb (contains hf_HEADER_TRANSFER_ENCODING (tq_headers r))); cbn [andb]|];
    cbn [sexec spiece_eval ss_out ss_locals snd]; rewrite <- ?app_assoc, ?app_nil_l; reflexivity.
Qed.

(* ---- the start lines and the chunk headers: request_line / response_line / chunk_header / last_chunk ::to_string() ---- *)
Theorem request_line_string_is_the_source r :
  xrun (mk_xenv [tq_method r; tq_uri r] (tq_major r) (tq_minor r) 0) request_line_to_string_src = Some (request_line_string r).
Proof.
  unfold xrun, request_line_to_string_src, request_line_string.
  cbn [xexec xeval nth xe_strs xe_major xe_minor xe_status snd app].
  rewrite <- ?app_assoc; reflexivity.
Qed.

Theorem response_line_string_is_the_source r :
  xrun (mk_xenv [rs_reason r] (rs_major r) (rs_minor r) (rs_status r)) response_line_to_string_src = Some (response_line_string r).
Proof.
  unfold xrun, response_line_to_string_src, response_line_string.
  cbn [xexec xeval nth xe_strs xe_major xe_minor xe_status snd].
  rewrite <- ?app_assoc; reflexivity.
Qed.

Theorem chunk_header_string_is_the_source size ext :
  xrun (mk_xenv [to_hex_string size; ext] 0 0 0) chunk_header_to_string_src = Some (chunk_header_string size ext).
Proof.
  unfold xrun, chunk_header_to_string_src, chunk_header_string, ext_string.
  cbn [xexec xeval nth xe_strs snd].
  destruct ext as [|c ext]; cbn [xexec xeval nth xe_strs snd]; rewrite <- ?app_assoc, ?app_nil_l; reflexivity.
Qed.

Theorem last_chunk_string_is_the_source ext trailers :
  xrun (mk_xenv [ext; trailers] 0 0 0) last_chunk_to_string_src = Some (last_chunk_string ext trailers).
Proof.
  unfold xrun, last_chunk_to_string_src, last_chunk_string, ext_string.
  cbn [xexec xeval nth xe_strs snd].
  destruct ext as [|c ext]; cbn [xexec xeval nth xe_strs snd]; rewrite <- ?app_assoc, ?app_nil_l; reflexivity.
Qed.

(* the whole head of a message: the translated to_string() of the start line, fed to the translated message() *)
Theorem response_head_is_the_source r n :
  exists line, xrun (mk_xenv [rs_reason r] (rs_major r) (rs_minor r) (rs_status r)) response_line_to_string_src = Some line
            /\ srun (mk_senv line (rs_headers r) (rs_status r) n) tx_response_message_src = Some (response_message r n).
Proof. exists (response_line_string r). split; [apply response_line_string_is_the_source | apply response_message_is_the_source]. Qed.

Theorem request_head_is_the_source r n :
  exists line, xrun (mk_xenv [tq_method r; tq_uri r] (tq_major r) (tq_minor r) 0) request_line_to_string_src = Some line
            /\ srun (mk_senv line (tq_headers r) 0 n) tx_request_message_src = Some (request_message r n).
Proof. exists (request_line_string r). split; [apply request_line_string_is_the_source | apply request_message_is_the_source]. Qed.

(* ---- header lines: header_field::to_header(name, value), content_length(size), chunked_encoding() ---- *)
Theorem to_header_is_the_source name value :
  xrun (mk_xenv [name; value] 0 0 0) hf_to_header_src = Some (to_header name value).
Proof.
  unfold xrun, hf_to_header_src, to_header.
  cbn [xexec xeval nth xe_strs xe_status snd]. rewrite <- ?app_assoc; reflexivity.
Qed.

Theorem content_length_line_is_the_source n :
  xrun (mk_xenv [] 0 0 n) hf_content_length_src = Some (content_length_line n).
Proof.
  unfold xrun, hf_content_length_src, content_length_line.
  cbn [xexec xeval nth xe_strs xe_status snd]. rewrite <- ?app_assoc; reflexivity.
Qed.

Theorem chunked_encoding_line_is_the_source :
  xrun (mk_xenv [] 0 0 0) hf_chunked_encoding_src = Some chunked_encoding_line.
Proof.
  unfold xrun, hf_chunked_encoding_src, chunked_encoding_line.
  cbn [xexec xeval nth xe_strs xe_status snd]. rewrite <- ?app_assoc; reflexivity.
Qed.
