(* Extract.v — extraction of the executable model for the correspondence check.
   Depends on M_*.v (definitions) only, never on proofs.
   Directives in use: exactly those of ExtrOcamlBasic (bool, option, unit, list, prod, sumbool,
   sumor to native OCaml types; andb/orb inlined).  N, positive, nat, Z stay inductive. *)
Require Extraction.
Require Import ExtrOcamlBasic.
From Via Require Import M_Char M_Encode M_HashMap M_Router M_Auth M_Parse M_Receive M_Server M_Client.
Set Extraction Optimize.
Extraction "model.ml"
  M_Char.isupper M_Char.isalpha M_Char.isdigit M_Char.isxdigit M_Char.isblank M_Char.isspace
  M_Char.iscntrl M_Char.isalnum M_Char.tolower M_Char.is_separator M_Char.is_token
  M_Char.is_end_of_line M_Char.from_dec_string M_Char.from_hex_string M_Char.to_dec_string
  M_Char.to_hex_string
  M_Encode.are_headers_split M_Encode.tx_response_of_code M_Encode.tx_response_of_reason
  M_Encode.tx_response_is_valid M_Encode.response_message M_Encode.add_header
  M_Encode.mk_tx_request M_Encode.request_message M_Encode.chunk_header_string
  M_Encode.last_chunk_string M_Encode.to_header M_Encode.standard_name M_Encode.lowercase_name
  M_Encode.content_length_line M_Encode.chunked_encoding_line M_Encode.request_ops_message M_Encode.response_ops
  M_HashMap.hm_run M_HashMap.hm_empty_map M_HashMap.id_hash
  M_Router.split M_Router.uri_path M_Router.get_route_parameters M_Router.handle_request
  M_Router.build_table M_Router.dispatch
  M_Auth.b64_encode M_Auth.b64_decode M_Auth.authenticate_route
  M_Parse.rl_st_index M_Parse.sl_st_index M_Parse.fl_st_index M_Parse.ck_st_index
  M_Receive.feed M_Receive.rv_init M_Receive.cfeed M_Receive.cv_init M_Receive.receive M_Receive.creceive M_Receive.retained M_Receive.read_loop
  M_Server.run M_Server.w_init M_Server.pending_ops
  M_Client.k_run M_Client.cl_init.
