(* P_Query.v — the model's decisions about a received request (M_Receive.rq_keep_alive, rq_expect_continue,
   rq_missing_host, rq_is_head, rq_is_trace; M_Parse.hd_is_chunked, hd_close_connection, hd_expect_continue), on which
   the close decision (C09), the interim response (C15), the Host check (C02) and HEAD handling (C14) rest, are what the
   C++ functions compute - as translated from clang's AST on this run (Gen_Parse.v) under the meaning of M_Query.v. *)
From Via Require Import M_Char M_Parse M_Receive M_Imp M_Loop M_Query Gen_Parse P_Imp.
From Coq Require Import List NArith Bool Lia.
Import ListNotations.
Local Open Scope N_scope.

Theorem hd_is_chunked_is_the_source h : hq_eval hd_is_chunked_src h = hd_is_chunked h.
Proof. unfold hq_eval, hd_is_chunked_src, hd_is_chunked. destruct (hd_find h hf_LC_TRANSFER_ENCODING); [reflexivity|]. destruct (contains _ _); reflexivity. Qed.
Theorem hd_close_connection_is_the_source h : hq_eval hd_close_connection_src h = hd_close_connection h.
Proof. unfold hq_eval, hd_close_connection_src, hd_close_connection. destruct (hd_find h hf_LC_CONNECTION); [reflexivity|]. destruct (contains _ _); reflexivity. Qed.
Theorem hd_expect_continue_is_the_source h : hq_eval hd_expect_continue_src h = hd_expect_continue h.
Proof. unfold hq_eval, hd_expect_continue_src, hd_expect_continue. destruct (hd_find h hf_LC_EXPECT); [reflexivity|]. destruct (contains _ _); reflexivity. Qed.

Definition rq_ev (q : rx_request) (e : rqexp) : bool := rq_eval (rl_store (rq_line q)) (rq_headers q) e.

Lemma early_eval l :
  fst (beval (fun _ => 0) 0 (BOr (BCmp CEq (NNum 1) (NLit 48)) (BAnd (BCmp CEq (NNum 1) (NLit 49)) (BCmp CEq (NNum 2) (NLit 48)))) (rl_store l)) =
  is_http_1_0_or_earlier (rl_major l) (rl_minor l).
Proof.
  destruct l as [m u ma mi st ws v f]. unfold is_http_1_0_or_earlier, rl_store. cbn [rl_major rl_minor].
  cbn [beval neval cmp_eval get_num s_nums nth fst snd]. destruct (ma =? 48); [reflexivity|]. destruct (ma =? 49); reflexivity.
Qed.

Theorem rq_keep_alive_is_the_source q : rq_ev q rq_keep_alive_src = rq_keep_alive q.
Proof.
  unfold rq_ev, rq_keep_alive_src, rq_keep_alive. cbn [rq_eval]. rewrite early_eval, hd_close_connection_is_the_source. reflexivity.
Qed.
Theorem rq_expect_continue_is_the_source q : rq_ev q rq_expect_continue_src = rq_expect_continue q.
Proof.
  unfold rq_ev, rq_expect_continue_src, rq_expect_continue. cbn [rq_eval]. rewrite early_eval, hd_expect_continue_is_the_source. reflexivity.
Qed.
Theorem rq_missing_host_is_the_source q : rq_ev q rq_missing_host_header_src = rq_missing_host q.
Proof.
  unfold rq_ev, rq_missing_host_header_src, rq_missing_host. destruct q as [l h v]; destruct l as [m u ma mi st ws vl f].
  cbn [rq_eval rq_line rq_headers rl_store rl_major rl_minor beval neval cmp_eval get_num s_nums nth fst snd]. reflexivity.
Qed.
Theorem rq_is_chunked_is_the_source q : rq_ev q rq_is_chunked_src = hd_is_chunked (rq_headers q).
Proof. unfold rq_ev, rq_is_chunked_src. cbn [rq_eval]. apply hd_is_chunked_is_the_source. Qed.
Theorem rq_is_head_is_the_source q : rq_ev q rq_is_head_src = rq_is_head q.
Proof. unfold rq_ev, rq_is_head_src, rq_is_head. destruct q as [l h v]; destruct l; reflexivity. Qed.
Theorem rq_is_trace_is_the_source q : rq_ev q rq_is_trace_src = rq_is_trace q.
Proof. unfold rq_ev, rq_is_trace_src, rq_is_trace. destruct q as [l h v]; destruct l; reflexivity. Qed.
