(* M_Conc.v — threads running threadsafe_hash_map operations under every interleaving.
   A state is the bucket vectors, the holders of each bucket's shared_mutex, and the threads.  A thread
   runs a list of operations; an operation is the action sequence compiled from the source by
   M_Locks.program plus the function that computes what it writes.  A thread only knows the buckets
   through its view: what it last read from (or wrote to) each bucket during the current operation;
   whatever it writes is a function of that view.  A scheduler picks which thread performs its next
   action; an acquire that conflicts with the current holders is not enabled (std::shared_mutex:
   any number of shared holders or one exclusive holder). *)
From Coq Require Import List Bool Arith ZArith.
From Via Require Import M_Locks.
Import ListNotations.

Definition bdata := list (Z * Z).
Definition view_t := nat -> option bdata.

Definition upd {A : Type} (f : nat -> A) (x : nat) (v : A) : nat -> A :=
  fun y => if Nat.eqb y x then v else f y.

Record op := { o_acts : list action; o_wf : nat -> view_t -> bdata }.

Record thread := { t_cur : list action; t_wf : nat -> view_t -> bdata; t_view : view_t;
                   t_held : held_t; t_rel : bool; t_todo : list op }.

Record cstate := { c_data : nat -> bdata; c_locks : nat -> list (nat * lkind); c_thr : nat -> thread }.

Definition compatible (k : lkind) (l : list (nat * lkind)) : bool :=
  match k with
  | Ex => match l with [] => true | _ => false end
  | Sh => forallb (fun e => lkind_eqb (snd e) Sh) l
  end.

Definition not_mine (t : nat) (e : nat * lkind) : bool := negb (Nat.eqb (fst e) t).

Definition cstep (s : cstate) (t : nat) : option cstate :=
  let th := c_thr s t in
  match t_cur th with
  | [] =>
      match t_todo th with
      | [] => None
      | o :: r =>
          Some {| c_data := c_data s; c_locks := c_locks s;
                  c_thr := upd (c_thr s) t {| t_cur := o_acts o; t_wf := o_wf o; t_view := fun _ => None;
                                             t_held := t_held th; t_rel := false; t_todo := r |} |}
      end
  | Acq k b :: r =>
      if compatible k (c_locks s b)
      then Some {| c_data := c_data s; c_locks := upd (c_locks s) b ((t, k) :: c_locks s b);
                   c_thr := upd (c_thr s) t {| t_cur := r; t_wf := t_wf th; t_view := t_view th;
                                              t_held := (b, k) :: t_held th; t_rel := false;
                                              t_todo := t_todo th |} |}
      else None
  | Rel b :: r =>
      Some {| c_data := c_data s; c_locks := upd (c_locks s) b (filter (not_mine t) (c_locks s b));
              c_thr := upd (c_thr s) t {| t_cur := r; t_wf := t_wf th; t_view := t_view th;
                                         t_held := drop b (t_held th); t_rel := true;
                                         t_todo := t_todo th |} |}
  | Rd b :: r =>
      Some {| c_data := c_data s; c_locks := c_locks s;
              c_thr := upd (c_thr s) t {| t_cur := r; t_wf := t_wf th;
                                         t_view := upd (t_view th) b (Some (c_data s b));
                                         t_held := t_held th; t_rel := t_rel th; t_todo := t_todo th |} |}
  | Wr b :: r =>
      let v := t_wf th b (t_view th) in
      Some {| c_data := upd (c_data s) b v; c_locks := c_locks s;
              c_thr := upd (c_thr s) t {| t_cur := r; t_wf := t_wf th;
                                         t_view := upd (t_view th) b (Some v);
                                         t_held := t_held th; t_rel := t_rel th; t_todo := t_todo th |} |}
  end.

(* a schedule: which thread moves next; a disabled choice leaves the state alone *)
Definition csched (s : cstate) (t : nat) : cstate := match cstep s t with Some s' => s' | None => s end.
Definition crun (sched : list nat) (s : cstate) : cstate := fold_left csched sched s.

(* threads that have not started: nothing held, nothing running, every operation follows the protocol *)
Definition idle (th : thread) : Prop :=
  t_cur th = [] /\ t_held th = [] /\ (forall b, t_view th b = None) /\ Forall (fun o => wl [] false (o_acts o) = true) (t_todo th).
Definition cinit (s : cstate) : Prop := (forall b, c_locks s b = []) /\ (forall t, idle (c_thr s t)).
