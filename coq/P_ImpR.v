(* P_ImpR.v — request_line::parse_char and clear: the hand-written model computes, for every state, every character and every limit
   configuration, exactly what the body of the C++ function computes - the body as translated from clang's AST on this
   run (Gen_Parse.v), under the meaning of statements defined in M_Imp.v. *)
From Via Require Import M_Char M_Parse M_Imp Gen_Parse.
From Coq Require Import List NArith Bool Lia.
Import ListNotations.
Local Open Scope N_scope.
Arguments nlen : simpl never.
Arguments snoc : simpl never.
From Via Require Import P_Imp0.

Definition rl_store (r : req_line) : store :=
  mk_store (rl_st_index (rl_state r)) [rl_method r; rl_uri r] [rl_ws r; rl_major r; rl_minor r; b2n (rl_valid r); b2n (rl_fail r)].

Definition rl_lim (L : limits) (k : nat) : N := nth k [max_uri L; max_method L; max_ws L] 0.

Definition rl_src (L : limits) : stmt := if strict_crlf L then rl_src_strict else rl_src_lax.


Theorem rl_parse_char_is_the_source L r c :
  run_body (rl_lim L) c (rl_src L) (rl_store r) = (rl_store (fst (rl_parse_char L r c)), snd (rl_parse_char L r c)).
Proof.
  unfold rl_src, rl_parse_char, expect_char. destruct r as [m u ma mi st ws v f]. cbn [rl_state rl_method rl_uri rl_major rl_minor rl_ws].
  destruct (strict_crlf L) eqn:Es; destruct st;
    unfold run_body, rl_src_strict, rl_src_lax, rl_store;
    norm;
    unfold rl_lim; cbn [nth];
    split_ifs; norm; try reflexivity;
    try (cbn [negb andb orb] in *; congruence).
Qed.


Theorem rl_clear_is_the_source lim c r : exec lim c rl_clear_src (rl_store r) = (ONormal, rl_store rl_init).
Proof. destruct r; reflexivity. Qed.
