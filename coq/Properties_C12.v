(* Properties_C12.v — C12: thread-pool mode.
   What is proved, for an io_context run by any number of threads, any number of connections and every
   schedule (M_Pool.preach): the library's own work on one connection — the connected path run by the accept
   handler and every completion handler of the connection's socket — never runs on two threads at once,
   given the executor bindings read off the source.  What is refuted: the full statement, because
   http_server::shutdown() and close() apply per-connection work to every connection on the calling thread
   (finding F43).  Memory-level data-race freedom is not a statement about this model: it is what the
   ThreadSanitizer runs of the real server look for (supporting), together with C18 for the shared maps. *)
From Coq Require Import String List Bool Arith.
From Via Require Import M_Pool P_Pool Gen_Access P_C12.
Import ListNotations.
Local Open Scope string_scope.

Theorem C12_library_work_on_one_connection_never_overlaps_partial :
  forall s c, preach source_facts s -> ~ overlap s c lib_kind.
Proof. intros s c. exact (lib_work_never_overlaps source_facts source_completions_on_strand source_arms_last s c). Qed.

(* the full property fails: shutdown() disconnects connection 0 on thread 1 while thread 0 is inside a
   completion handler of connection 0 *)
Theorem C12_full_refuted_by_shutdown :
  exists s, preach source_facts s /\ overlap s 0 (fun k => k = KCompletion \/ k = KSweep "disconnect").
Proof. exact (direct_sweep_overlaps source_facts "disconnect" source_completions_on_strand source_arms_last eq_refl). Qed.

Theorem C12_full_refuted_by_close :
  exists s, preach source_facts s /\ overlap s 0 (fun k => k = KCompletion \/ k = KSweep "disconnected_handler_").
Proof. exact (direct_sweep_overlaps source_facts "disconnected_handler_" source_completions_on_strand source_arms_last eq_refl). Qed.

(* the premises are the source's: *)
Theorem C12_source_binds_completions_to_strands : completions_on_strand source_facts = true.
Proof. exact source_completions_on_strand. Qed.
Theorem C12_shared_collections_are_the_concurrent_map : collections_concurrent = true.
Proof. exact source_collections_concurrent. Qed.
Theorem C12_sweeps_pinned :
  connection_sweeps = [("http_server::close", "disconnected_handler_", "direct");
                       ("http_server::shutdown", "disconnect", "direct")].
Proof. exact source_sweeps_are_the_known_ones. Qed.
Theorem C12_shared_writes_pinned : shared_writes = [("http_server::shutdown", "shutting_down_")].
Proof. exact source_shared_writes_are_the_known_ones. Qed.

(* non-vacuity: a reachable state with two threads inside completion handlers of different connections *)
Example C12_example_parallel :
  exists s, preach source_facts s /\ exists th1 th2 t1 t2, th1 <> th2 /\ In (th1, t1) (p_run s) /\ In (th2, t2) (p_run s) /\
            tk_kind t1 = KCompletion /\ tk_kind t2 = KCompletion /\ tk_conn t1 <> tk_conn t2.
Proof.
  pose (f := source_facts).
  pose (c0 := mk f 0 KConnected). pose (c1 := mk f 1 KConnected). pose (r0 := mk f 0 KCompletion). pose (r1 := mk f 1 KCompletion).
  pose (s1 := {| p_run := []; p_queue := [] ++ [c0]; p_next := 1 |}).
  pose (s2 := {| p_run := []; p_queue := ([] ++ [c0]) ++ [c1]; p_next := 2 |}).
  pose (s3 := {| p_run := [(0, c0)]; p_queue := [] ++ [c1]; p_next := 2 |}).
  pose (s4 := {| p_run := [(1, c1); (0, c0)]; p_queue := [] ++ []; p_next := 2 |}).
  pose (s5 := {| p_run := [(1, c1)] ++ []; p_queue := ([] ++ []) ++ repeat r0 1; p_next := 2 |}).
  pose (s6 := {| p_run := [] ++ []; p_queue := (([] ++ []) ++ repeat r0 1) ++ repeat r1 1; p_next := 2 |}).
  pose (s7 := {| p_run := [(0, r0)]; p_queue := [] ++ [r1]; p_next := 2 |}).
  pose (s8 := {| p_run := [(1, r1); (0, r0)]; p_queue := [] ++ []; p_next := 2 |}).
  assert (R1 : preach f s1) by (apply (PRS f p_init); [constructor | apply (PAccept f p_init)]).
  assert (R2 : preach f s2) by (apply (PRS f s1 s2 R1); apply (PAccept f s1)).
  assert (R3 : preach f s3) by (apply (PRS f s2 s3 R2); apply (PStart f s2 0 c0 [] [c1]); [reflexivity | simpl; tauto | exact I]).
  assert (R4 : preach f s4).
  { apply (PRS f s3 s4 R3). apply (PStart f s3 1 c1 [] []); [reflexivity | simpl; intros [E|[]]; discriminate | exact I]. }
  assert (R5 : preach f s5).
  { apply (PRS f s4 s5 R4). apply (PFinish f s4 0 c0 [(1, c1)] [] 1); [reflexivity | right; right; split; reflexivity]. }
  assert (R6 : preach f s6).
  { apply (PRS f s5 s6 R5). apply (PFinish f s5 1 c1 [] [] 1); [reflexivity | right; right; split; reflexivity]. }
  assert (R7 : preach f s7).
  { apply (PRS f s6 s7 R6). apply (PStart f s6 0 r0 [] [r1]); [reflexivity | simpl; tauto | simpl; intros r []]. }
  assert (R8 : preach f s8).
  { apply (PRS f s7 s8 R7). apply (PStart f s7 1 r1 [] []); [reflexivity | simpl; intros [E|[]]; discriminate |].
    simpl. intros r [<-|[]]. simpl. discriminate. }
  exists s8. split; [exact R8|]. exists 0, 1, r0, r1. repeat split; simpl; auto; discriminate.
Qed.

Print Assumptions C12_library_work_on_one_connection_never_overlaps_partial.
Print Assumptions C12_full_refuted_by_shutdown.
Print Assumptions C12_full_refuted_by_close.
Print Assumptions C12_sweeps_pinned.
