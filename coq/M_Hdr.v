(* M_Hdr.v — the third layer of the small imperative language: the body of message_headers::parse(iter, end) as clang's
   AST gives it.  It works on the members of message_headers (the map of fields, the field line being read - a store of
   M_Imp.v - and the flags and the length), and on the unread input.  The calls into the field line - parse, clear,
   started, fail, length, name, value - run the TRANSLATED bodies of those functions (layers one and two);
   message_headers::add is the model's fields_add (a map operation, tied by the correspondence check).  Looking at
   *iter or advancing at `end`, a failing inner run and running out of fuel are all `None`. *)
From Via Require Import M_Char M_Parse M_Imp M_Loop.
From Coq Require Import List NArith Bool.
Import ListNotations.
Local Open Scope N_scope.

(* the translated functions of field_line that message_headers::parse calls *)
Record fl_code := mk_flc
  { fc_pc : stmt; fc_parse : lstmt; fc_clear : stmt; fc_started : bexp; fc_fail : bexp; fc_length : nexp;
    fc_name : nat; fc_value : nat }.

Record hstore := mk_hs { hs_fields : fields; hs_field : store; hs_nums : list N }.
Record hstate := mk_hst { h_store : hstore; h_in : str }.

Inductive hnexp :=
  | HNum (k : nat) | HLim (k : nat)
  | HFieldsSize                              (* fields_.size() *)
  | HFieldLength.                            (* field_.length() *)

Inductive hexp :=
  | HMore | HAtEnd                           (* iter != end, iter == end *)
  | HFlag (k : nat)
  | HNot (a : hexp) | HAnd (a b : hexp) | HOr (a b : hexp)
  | HFieldStarted | HFieldFail               (* field_.started(), field_.fail() *)
  | HPeek (p : cpred)                        (* p( *iter ) *)
  | HPeekIs (ch : N)                         (* 'x' == *iter *)
  | HFieldParse                              (* field_.parse(iter, end) *)
  | HGt (a b : hnexp)
  | HConst (v : bool).

Inductive hstmt :=
  | HSkip
  | HSeq (a b : hstmt)
  | HIf (c : hexp) (t e : hstmt)
  | HWhile (c : hexp) (body : hstmt)
  | HReturn (e : hexp)
  | HSet (k : nat) (e : hexp)                (* bool member = e *)
  | HAddTo (k : nat) (e : hnexp)             (* member += e *)
  | HAddField                                (* add(field_.name(), field_.value()) *)
  | HFieldClear                              (* field_.clear() *)
  | HFieldsClear                             (* fields_.clear() *)
  | HSetNum (k : nat) (n : N)                (* member = literal *)
  | HAdvance.                                (* ++iter *)

Section Hdr.
  Variable flim : nat -> N.                  (* the limits of the field line *)
  Variable hlim : nat -> N.                  (* the limits of the header block *)
  Variable fc : fl_code.

  Definition hnum (st : hstore) (k : nat) : N := nth k (hs_nums st) 0.
  Definition hset (st : hstore) (k : nat) (v : N) : hstore := mk_hs (hs_fields st) (hs_field st) (set_nth (hs_nums st) k v).

  Definition hneval (e : hnexp) (st : hstore) : N :=
    match e with
    | HNum k => hnum st k
    | HLim k => hlim k
    | HFieldsSize => N.of_nat (length (hs_fields st))
    | HFieldLength => fst (neval flim 0 (fc_length fc) (hs_field st))
    end.

  Fixpoint heval (fuel : nat) (e : hexp) (s : hstate) : option (bool * hstate) :=
    match e with
    | HMore => Some (match h_in s with [] => false | _ => true end, s)
    | HAtEnd => Some (match h_in s with [] => true | _ => false end, s)
    | HFlag k => Some (negb (hnum (h_store s) k =? 0), s)
    | HNot a => match heval fuel a s with Some (v, s1) => Some (negb v, s1) | None => None end
    | HAnd a b => match heval fuel a s with Some (true, s1) => heval fuel b s1 | r => r end
    | HOr a b => match heval fuel a s with Some (false, s1) => heval fuel b s1 | r => r end
    | HFieldStarted => Some (fst (beval flim 0 (fc_started fc) (hs_field (h_store s))), s)
    | HFieldFail => Some (fst (beval flim 0 (fc_fail fc) (hs_field (h_store s))), s)
    | HPeek p => match h_in s with [] => None | x :: _ => Some (cpred_eval p x, s) end
    | HPeekIs ch => match h_in s with [] => None | x :: _ => Some (x =? ch, s) end
    | HFieldParse =>
        match lrun flim (fc_pc fc) fuel (fc_parse fc) (hs_field (h_store s)) (h_in s) with
        | Some (v, f1, rest) => Some (v, mk_hst (mk_hs (hs_fields (h_store s)) f1 (hs_nums (h_store s))) rest)
        | None => None
        end
    | HGt a b => Some (hneval b (h_store s) <? hneval a (h_store s), s)
    | HConst v => Some (v, s)
    end.

  Fixpoint hexec (fuel : nat) : hstmt -> hstate -> option (lout * hstate) :=
    fix go (st : hstmt) (s : hstate) {struct st} : option (lout * hstate) :=
      match st with
      | HSkip => Some (LNormal, s)
      | HSeq a b => match go a s with Some (LNormal, s1) => go b s1 | r => r end
      | HIf c t e => match heval fuel c s with Some (v, s1) => if v then go t s1 else go e s1 | None => None end
      | HWhile c body =>
          match fuel with
          | O => None
          | S n =>
              match heval fuel c s with
              | Some (true, s1) => match go body s1 with Some (LNormal, s2) => hexec n (HWhile c body) s2 | r => r end
              | Some (false, s1) => Some (LNormal, s1)
              | None => None
              end
          end
      | HReturn e => match heval fuel e s with Some (v, s1) => Some (LRet v, s1) | None => None end
      | HSet k e => match heval fuel e s with Some (v, s1) => Some (LNormal, mk_hst (hset (h_store s1) k (b2n v)) (h_in s1)) | None => None end
      | HAddTo k e => Some (LNormal, mk_hst (hset (h_store s) k (hnum (h_store s) k + hneval e (h_store s))) (h_in s))
      | HAddField =>
          let st := h_store s in
          Some (LNormal, mk_hst (mk_hs (fields_add (hs_fields st) (get_str (hs_field st) (fc_name fc)) (get_str (hs_field st) (fc_value fc)))
                                       (hs_field st) (hs_nums st)) (h_in s))
      | HFieldClear =>
          let st := h_store s in
          Some (LNormal, mk_hst (mk_hs (hs_fields st) (snd (exec flim 0 (fc_clear fc) (hs_field st))) (hs_nums st)) (h_in s))
      | HFieldsClear => let st := h_store s in Some (LNormal, mk_hst (mk_hs [] (hs_field st) (hs_nums st)) (h_in s))
      | HSetNum k n => Some (LNormal, mk_hst (hset (h_store s) k n) (h_in s))
      | HAdvance => match h_in s with [] => None | _ :: t => Some (LNormal, mk_hst (h_store s) t) end
      end.

  Definition hrun (fuel : nat) (body : hstmt) (st : hstore) (input : str) : option (bool * hstore * str) :=
    match hexec fuel body (mk_hst st input) with
    | Some (LRet v, s) => Some (v, h_store s, h_in s)
    | _ => None
    end.
End Hdr.
