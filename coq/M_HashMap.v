(* M_HashMap.v — thread/threadsafe_hash_map.hpp, sequential semantics.
   A bucket is a vector of (key, value) pairs kept sorted by key; std::lower_bound on a sorted
   vector is the first position whose key is >= the search key, which is what the structural
   scans below compute (libstdc++'s binary search is modelled, not verified; the sortedness it
   relies on is the invariant proved in P_C18.v).  Keys and values are integers (the server
   instantiates the map with pointer keys and shared_ptr values). *)
From Coq Require Export List ZArith Bool Lia.
Export ListNotations.
Local Open Scope Z_scope.

Definition bucket := list (Z * Z).

(* bucket_type::value_for *)
Fixpoint b_find (k : Z) (b : bucket) : option Z :=
  match b with
  | [] => None
  | (k', v') :: t => if k' <? k then b_find k t else if k' =? k then Some v' else None
  end.

(* bucket_type::add_or_update_mapping *)
Fixpoint b_insert (k v : Z) (b : bucket) : bucket :=
  match b with
  | [] => [(k, v)]
  | (k', v') :: t =>
      if k' <? k then (k', v') :: b_insert k v t
      else if k' =? k then (k, v) :: t
      else (k, v) :: (k', v') :: t
  end.

(* bucket_type::remove_mapping: erase the lower_bound position if it holds the key *)
Fixpoint b_remove (k : Z) (b : bucket) : bucket :=
  match b with
  | [] => []
  | (k', v') :: t =>
      if k' <? k then (k', v') :: b_remove k t
      else if k' =? k then t
      else (k', v') :: t
  end.

(* the map: num_buckets buckets, index = hash(key) mod num_buckets *)
Record hmap := { hm_hash : Z -> Z; hm_buckets : list bucket }.

Definition nb (m : hmap) : Z := Z.of_nat (length (hm_buckets m)).
Definition bucket_index (m : hmap) (k : Z) : nat := Z.to_nat (hm_hash m k mod nb m).

(* the harness's hash: static_cast<size_t>(int key) *)
Definition id_hash (k : Z) : Z := k mod 18446744073709551616.

Definition hm_empty_map (h : Z -> Z) (n : nat) : hmap := {| hm_hash := h; hm_buckets := repeat [] n |}.

Fixpoint update_nth {A} (i : nat) (f : A -> A) (l : list A) : list A :=
  match l, i with
  | [], _ => []
  | x :: t, O => f x :: t
  | x :: t, S j => x :: update_nth j f t
  end.

Definition hm_find (m : hmap) (k : Z) (default : Z * Z) : Z * Z :=
  match b_find k (nth (bucket_index m k) (hm_buckets m) []) with
  | Some v => (k, v)
  | None => default
  end.

Definition hm_insert (m : hmap) (k v : Z) : hmap :=
  {| hm_hash := hm_hash m; hm_buckets := update_nth (bucket_index m k) (b_insert k v) (hm_buckets m) |}.

Definition hm_erase (m : hmap) (k : Z) : hmap :=
  {| hm_hash := hm_hash m; hm_buckets := update_nth (bucket_index m k) (b_remove k) (hm_buckets m) |}.

Definition hm_empty (m : hmap) : bool :=
  forallb (fun b => match b with [] => true | _ => false end) (hm_buckets m).

Definition hm_data (m : hmap) : list (Z * Z) := concat (hm_buckets m).

Definition hm_clear (m : hmap) : hmap :=
  {| hm_hash := hm_hash m; hm_buckets := map (fun _ => []) (hm_buckets m) |}.

(* operation alphabet used by the correspondence check and by the refinement statement *)
Inductive hop :=
  | OInsert (k v : Z) | OErase (k : Z) | OFind (k : Z) | OEmpty | OData | OClear.

Inductive hres :=
  | RUnit | RPair (kv : Z * Z) | RBool (b : bool) | RList (l : list (Z * Z)).

Definition hm_step (m : hmap) (o : hop) : hmap * hres :=
  match o with
  | OInsert k v => (hm_insert m k v, RUnit)
  | OErase k => (hm_erase m k, RUnit)
  | OFind k => (m, RPair (hm_find m k (0, 0)))
  | OEmpty => (m, RBool (hm_empty m))
  | OData => (m, RList (hm_data m))
  | OClear => (hm_clear m, RUnit)
  end.

Fixpoint hm_run (m : hmap) (ops : list hop) : list hres :=
  match ops with
  | [] => []
  | o :: t => let (m', r) := hm_step m o in r :: hm_run m' t
  end.
