(* Properties_C06.v — C06: per-connection buffering is bounded by the configured limits.
   `retained` (M_Receive.v) is the quantity the property bounds.  Proved: the request line never holds more
   than max_method + 1 / max_uri + 1 bytes, a header line never more than the line limit + 1, a header block
   (fields stored + line in progress) never more than hd_bound, in any state reachable by parsing any bytes in
   any pieces (P_C06.v); the body/chunk components are decided against the code by the adversarial-stream
   correspondence, which measures `retained` on the real members. *)
From Via Require Import M_Char M_Parse M_Receive P_C06.
Local Open Scope N_scope.

Theorem C06_request_line_bounded : forall L buf r,
  rl_bounded L r -> rl_bounded L (fst (fst (rl_parse L r buf))).
Proof. exact rl_parse_bounded. Qed.

Example C06_example_init : forall L, rl_bounded L rl_init.
Proof. intros L. unfold rl_bounded, nlen. cbn. repeat split; intros; lia. Qed.

(* a header line: name and value never hold more than the line limit plus one byte, whatever arrives *)
Theorem C06_field_line_bounded : forall L f buf, fl_inv L f ->
  nlen (fl_name (fst (fst (fl_parse L f buf)))) + nlen (fl_value (fst (fst (fl_parse L f buf)))) <= max_line L + 1.
Proof. intros L f buf H. apply fl_inv_bound, fl_parse_inv, H. Qed.

(* a header block (or the trailers of a chunk): over any sequence of reads of any bytes - endless lines, repeated
   names, folded lines, empty names - the stored fields plus the line in progress never exceed
   2 * (MAX_HEADER_LENGTH + MAX_LINE_LENGTH + 1) + MAX_LINE_LENGTH + 1 bytes *)
Theorem C06_header_block_bounded : forall L frags, hd_retained (hd_feed L hd_init frags) <= hd_bound L.
Proof. intros L frags. apply hd_feed_bounded, hd_inv_init. Qed.

Example C06_example_bound_value : hd_bound (mk_limits 8190 8 100 65534 1024 8 65534 65534 false) = 134143.
Proof. reflexivity. Qed.

Print Assumptions C06_request_line_bounded.
Print Assumptions C06_field_line_bounded.
Print Assumptions C06_header_block_bounded.
