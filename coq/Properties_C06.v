(* Properties_C06.v — C06: per-connection buffering is bounded by the configured limits.
   `retained` (M_Receive.v) is the quantity the property bounds.  Proved: the request line never holds more
   than max_method + 1 / max_uri + 1 bytes, a header line never more than the line limit + 1, a header block
   (fields stored + line in progress) never more than hd_bound, in any state reachable by parsing any bytes in
   any pieces (P_C06.v); and the whole of `retained` - request line, header block, body, chunk size line, chunk
   data, trailers - never exceeds ret_bound in any state a connection reaches by any reads of any bytes (P_C06b.v).
   The adversarial-stream correspondence measures `retained` on the real members and compares it with the model's
   figure and with the same bound. *)
From Via Require Import M_Char M_Parse M_Receive P_C06 P_C06b.
Local Open Scope N_scope.

Theorem C06_request_line_bounded : forall L buf r,
  rl_bounded L r -> rl_bounded L (fst (fst (rl_parse L r buf))).
Proof. exact rl_parse_bounded. Qed.

Example C06_example_init : forall L, rl_bounded L rl_init.
Proof. intros L. unfold rl_bounded, nlen. cbn. repeat split; intros; lia. Qed.

(* a header line: name and value never hold more than the line limit plus one byte, whatever arrives *)
Theorem C06_field_line_bounded : forall L f buf, fl_inv L f ->
  nlen (fl_name (fst (fst (fl_parse L f buf)))) + nlen (fl_value (fst (fst (fl_parse L f buf)))) <= max_line L + 1.
Proof. intros L f buf H. apply fl_inv_bound, fl_parse_inv, H. Qed.

(* a header block (or the trailers of a chunk): over any sequence of reads of any bytes - endless lines, repeated
   names, folded lines, empty names - the stored fields plus the line in progress never exceed
   2 * (MAX_HEADER_LENGTH + MAX_LINE_LENGTH + 1) + MAX_LINE_LENGTH + 1 bytes *)
Theorem C06_header_block_bounded : forall L frags, hd_retained (hd_feed L hd_init frags) <= hd_bound L.
Proof. intros L frags. apply hd_feed_bounded, hd_inv_init. Qed.

Example C06_example_bound_value : hd_bound (mk_limits 8190 8 100 65534 1024 8 65534 65534 false) = 134143.
Proof. reflexivity. Qed.

(* everything the receiver of a connection retains, after any sequence of reads of any bytes (complete requests are
   handed over and cleared, rejected ones cleared): bounded by
   (MAX_METHOD+1) + (MAX_URI+1) + hd_bound + max_content_length + max_chunk_size + (MAX_LINE+1) + hd_bound *)
Theorem C06_connection_retains_bounded : forall cfg frags,
  retained (fst (fst (fst (feed cfg (rv_init cfg) frags)))) <= ret_bound cfg.
Proof. exact feed_retained_bounded. Qed.

(* and in the middle of a read: the state any single receive() call leaves behind *)
Theorem C06_receive_retains_bounded : forall cfg frags buf,
  retained (fst (fst (receive cfg (fst (fst (fst (feed cfg (rv_init cfg) frags)))) buf))) <= ret_bound cfg.
Proof. exact receive_retained_bounded. Qed.

Example C06_example_ret_bound :
  ret_bound (mk_rcfg (mk_limits 8190 8 100 65534 1024 8 65534 65534 false) 1048576 1048576 true true false) = 2374663.
Proof. reflexivity. Qed.

Print Assumptions C06_request_line_bounded.
Print Assumptions C06_field_line_bounded.
Print Assumptions C06_header_block_bounded.
Print Assumptions C06_connection_retains_bounded.
Print Assumptions C06_receive_retains_bounded.
