(* Properties_C06.v — C06: per-connection buffering is bounded by the configured limits.
   `retained` (M_Receive.v) is the quantity the property bounds.  Proved so far: the request line
   never holds more than max_method + 1 / max_uri + 1 bytes in any state reachable by parsing any
   bytes (P_C06.v); the header/body/chunk components are decided against the code by the
   adversarial-stream correspondence, which measures `retained` on the real members. *)
From Via Require Import M_Char M_Parse M_Receive P_C06.
Local Open Scope N_scope.

Theorem C06_request_line_bounded : forall L buf r,
  rl_bounded L r -> rl_bounded L (fst (fst (rl_parse L r buf))).
Proof. exact rl_parse_bounded. Qed.

Example C06_example_init : forall L, rl_bounded L rl_init.
Proof. intros L. unfold rl_bounded, nlen. cbn. repeat split; intros; lia. Qed.

Print Assumptions C06_request_line_bounded.
