(* P_C08f.v — a whole request as tx_request::message writes it (request line, the caller's header lines, the
   Content-Length line the encoder adds, empty line) followed by its body is received back by request_receiver as one
   valid request: same method, target, version, fields and body. *)
From Via Require Import M_Char M_Encode M_Parse M_Receive P_Parse P_Frag P_C06 P_C08 P_C02 P_C08b P_C08c P_C08e.
From Coq Require Import Lia ZifyBool ZifyNat ZifyN.
Local Open Scope N_scope.
Arguments nlen : simpl never.
Arguments snoc : simpl never.

Lemma lines_bytes_app a b : lines_bytes (a ++ b) = lines_bytes a ++ lines_bytes b.
Proof. unfold lines_bytes. rewrite map_app, concat_app. reflexivity. Qed.

Definition cl_line (n : N) : str * str := (hf_HEADER_CONTENT_LENGTH, to_dec_string n).

Lemma cl_line_bytes n : lines_bytes [cl_line n] = content_length_line n.
Proof. unfold lines_bytes, cl_line, content_length_line, to_header. cbn [map concat fst snd]. rewrite app_nil_r. reflexivity. Qed.

Theorem request_message_roundtrip cfg m u ma mi hs body rest :
  let L := c_lim cfg in
  let n := nlen body in
  let hs' := hs ++ [cl_line n] in
  let F := fold_left add_line hs' [] in
  forallb isupper m = true -> m <> [] -> nlen m <= max_method L ->
  forallb uri_char u = true -> u <> [] -> nlen u <= max_uri L ->
  isdigit ma = true -> isdigit mi = true -> 1 <= max_ws L ->
  Forall (line_ok L) hs' -> within L [] 0 hs' ->
  (* the encoder adds the Content-Length line: the caller's header string mentions neither framing header *)
  request_adds_content_length (mk_tx_request m u ma mi (lines_bytes hs)) = true ->
  (* what the header lines amount to: a Host for HTTP/1.1, no Transfer-Encoding, the one Content-Length *)
  (ma = 49 -> mi = 49 -> exists hv, fields_find hf_LC_HOST F = Some hv /\ hv <> []) ->
  fields_find hf_LC_TRANSFER_ENCODING F = None ->
  fields_find hf_LC_CONTENT_LENGTH F = Some (to_dec_string n) ->
  str_eqb m method_HEAD = false -> str_eqb m method_TRACE = false ->
  n <= c_max_content cfg -> n <= LONG_MAX ->
  exists v1, receive cfg (rv_init cfg) (request_message (mk_tx_request m u ma mi (lines_bytes hs)) n ++ body ++ rest) = (v1, rest, RX_VALID) /\
             rq_line (rv_req v1) = mk_rl m u ma mi R_VALID 1 true false /\
             hd_fields (rq_headers (rv_req v1)) = F /\ rv_body v1 = body.
Proof.
  intros L n hs' F Hm Hmn Hml Hu Hun Hul Ha Hi Hws Hok Hwi Hadd Hhost Hte Hcl Hnh Hnt Hmax Hlm.
  unfold request_message. rewrite Hadd. cbn [tq_headers].
  rewrite <- cl_line_bytes.
  replace (request_line_string (mk_tx_request m u ma mi (lines_bytes hs)) ++ lines_bytes hs ++ lines_bytes [cl_line n] ++ CRLF)
    with (request_line_string (mk_tx_request m u ma mi (lines_bytes hs')) ++ lines_bytes hs' ++ [13; 10])
    by (unfold hs'; rewrite lines_bytes_app, <- !app_assoc; reflexivity).
  rewrite <- !app_assoc.
  destruct (request_head_roundtrip L m u ma mi hs' (body ++ rest) Hm Hmn Hml Hu Hun Hul Ha Hi Hws Hok Hwi) as [h' [Hp [Hf Hv]]].
  fold F in Hf.
  rewrite (receive_head_done cfg (rv_init cfg) _ _ _ eq_refl Hp).
  cbn [rv_init rv_chunk rv_body rv_code rv_continue_sent rv_is_head].
  set (v1 := mk_rv _ _ _ _ _ _).
  assert (Hfind : forall name, hd_find h' name = match fields_find name F with Some v => v | None => [] end).
  { intros name. unfold hd_find. rewrite Hf. reflexivity. }
  assert (Hu1 : unchunked v1).
  { unfold unchunked, v1. cbn [rv_req rq_headers rq_line]. split.
    - unfold rq_missing_host. cbn [rq_line rq_headers rl_major rl_minor].
      destruct (ma =? 49) eqn:E1; [|reflexivity]. destruct (mi =? 49) eqn:E2; [|reflexivity]. cbn [andb].
      destruct (Hhost ltac:(lia) ltac:(lia)) as [hv [Hh Hne]]. rewrite Hfind, Hh. destruct hv; [congruence | reflexivity].
    - unfold hd_is_chunked. rewrite Hfind, Hte. reflexivity. }
  rewrite (receive_body_cl _ _ _ _ Hu1).
  unfold receive_cl, invalid. cbv zeta.
  assert (Htr : rq_is_trace (rv_req v1) = false) by (unfold rq_is_trace, v1; cbn; exact Hnt).
  assert (Hhd : rq_is_head (rv_req v1) = false) by (unfold rq_is_head, v1; cbn; exact Hnh).
  assert (Hclv : hd_content_length (rq_headers (rv_req v1)) = Some n).
  { unfold hd_content_length, v1. cbn [rv_req rq_headers]. rewrite Hfind, Hcl.
    destruct (dec_string_digits n) as [_ Hne]. destruct (to_dec_string n) eqn:Ed; [congruence|]. rewrite <- Ed. apply dec_roundtrip, Hlm. }
  rewrite Htr, Hclv. cbn [andb].
  assert (E1 : (0 <? n) && (c_max_content cfg <? n) = false) by lia. rewrite E1.
  assert (Hne : nonempty (hd_find (rq_headers (rv_req v1)) hf_LC_CONTENT_LENGTH) = true).
  { unfold v1. cbn [rv_req rq_headers]. rewrite Hfind, Hcl. destruct (dec_string_digits n) as [_ Hne]. destruct (to_dec_string n); [congruence | reflexivity]. }
  rewrite Hne. cbn [negb]. rewrite Bool.andb_false_r.
  assert (Hb0 : rv_body v1 = []) by reflexivity. rewrite Hb0. change (nlen []) with 0.
  replace (Z.of_N n - Z.of_N 0)%Z with (Z.of_N n) by lia.
  assert (E2 : ((Z.of_N n <? 0)%Z && (Z.of_N n <? Z.of_N (nlen (body ++ rest)))%Z) = false) by lia. rewrite E2.
  rewrite nlen_app'. fold n.
  destruct (Z.of_N n <? Z.of_N (n + nlen rest))%Z eqn:E3.
  - cbn [app]. replace (Z.to_nat (Z.of_N n)) with (length body) by (unfold n, nlen; lia).
    rewrite firstn_app_exact, skipn_app_exact. fold n. rewrite N.eqb_refl. rewrite Hhd. cbn [andb].
    eexists. split; [reflexivity|]. cbn [rv_req rv_body]. unfold v1. cbn [rv_req rq_line rq_headers]. repeat split; [exact Hf].
  - assert (Hr : rest = []) by (destruct rest; [reflexivity | rewrite nlen_cons in E3; lia]). subst rest.
    cbn [app]. rewrite app_nil_r. fold n. rewrite N.eqb_refl. rewrite Hhd. cbn [andb].
    eexists. split; [reflexivity|]. cbn [rv_req rv_body]. unfold v1. cbn [rv_req rq_line rq_headers]. repeat split; [exact Hf].
Qed.
