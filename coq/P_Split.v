(* P_Split.v — the model's are_headers_split (M_Encode.v), on which C13's theorems rest, computes for every header
   string what the C++ function computes - its loop body as translated from clang's AST on this run
   (Gen_Parse.split_body_src, with the initial window split_init_src and the final value split_final_src), under the
   meaning of M_Imp.exec and M_Loop.run_for. *)
From Via Require Import M_Char M_Parse M_Encode M_Imp M_Loop Gen_Parse.
From Coq Require Import List NArith Bool Lia.
Import ListNotations.
Local Open Scope N_scope.

Lemma split_for lim : forall hs pprev prev,
  run_for lim split_body_src split_final_src (mk_store 0 [] [prev; pprev]) hs = split_scan pprev prev hs.
Proof.
  induction hs as [|c t IH]; intros pprev prev; [reflexivity|].
  cbn [run_for split_scan]. unfold split_body_src.
  cbn [exec beval neval cmp_eval get_num set_num s_nums s_strs s_state nth set_nth].
  destruct (c =? 10); cbn [andb].
  - destruct (prev =? 10); cbn [orb]; [reflexivity|].
    destruct (prev =? 13); cbn [andb]; [destruct (pprev =? 10); [reflexivity | apply IH] | apply IH].
  - apply IH.
Qed.

Theorem are_headers_split_is_the_source hs :
  run_for (fun _ => 0) split_body_src split_final_src (mk_store 0 [] split_init_src) hs = are_headers_split hs.
Proof. unfold are_headers_split. exact (split_for (fun _ => 0) hs (fst split_window_init) (snd split_window_init)). Qed.
