(* P_C06b.v — everything a connection's receiver retains is bounded by the configured limits, in every state
   reachable by any reads of any bytes: request line, header block, body, chunk header, chunk data, trailers. *)
From Via Require Import M_Char M_Parse M_Receive P_Parse P_Frag P_C06.
Require Import ZifyBool ZifyNat ZifyN.
Local Open Scope N_scope.
Arguments nlen : simpl never.
Arguments snoc : simpl never.

(* ---- chunk size line ---- *)
Definition ck_sized (s : ck_st) : bool :=
  match s with K_EXTENSION_LS | K_EXTENSION | K_LF | K_VALID => true | _ => false end.

Definition ck_inv (L : limits) (k : chunk_hdr) : Prop :=
  nlen (ck_hex k) + nlen (ck_ext k) <= ck_length k /\
  ck_length k <= max_line L + 1 /\ (ck_fail k = false -> ck_length k <= max_line L) /\
  (ck_sized (ck_state k) = true -> ck_size k <= ck_max k) /\
  (ck_valid k = true -> ck_state k = K_VALID).

Lemma ck_inv_init L m : ck_inv L (ck_init m).
Proof. unfold ck_inv, nlen. cbn. repeat split; try lia; try discriminate. Qed.

Ltac ckfin :=
  cbn [fst snd ck_set_state ck_set_ws ck_hex ck_ext ck_length ck_size ck_max ck_state ck_valid ck_fail ck_sized] in *;
  rewrite ?nlen_snoc in *;
  repeat split; intros; try discriminate; try congruence; try lia.

Lemma ck_parse_char_inv L k c : ck_inv L k -> ck_fail k = false -> ck_valid k = false ->
  let '(k1, ok) := ck_parse_char L k c in
  nlen (ck_hex k1) + nlen (ck_ext k1) <= ck_length k1 /\ ck_length k1 = ck_length k + 1 /\
  (ok = true -> ck_length k1 <= max_line L) /\
  (ck_sized (ck_state k1) = true -> ck_size k1 <= ck_max k1) /\ ck_valid k1 = false /\ ck_max k1 = ck_max k.
Proof.
  intros (A & B & C & D & E) Hf Hv. specialize (C Hf). unfold ck_parse_char.
  set (k1 := mk_ck (ck_max k) (ck_size k) (ck_length k + 1) (ck_ws k) (ck_hex k) (ck_ext k) (ck_state k) (ck_size_read k) (ck_valid k) (ck_fail k)).
  destruct (max_line L <? ck_length k1) eqn:Eover; unfold k1 in *; clear k1.
  - cbn [ck_set_state ck_state]. ckfin.
  - cbn [ck_length] in Eover.
    destruct (ck_state k) eqn:Es; cbn [ck_state]; unfold ck_size_case, ck_ext_case;
      repeat dif; ckfin.
Qed.

Lemma ck_loop_inv L buf : forall k, ck_inv L k -> ck_fail k = false -> ck_valid k = false ->
  ck_inv L (fst (fst (ck_loop L k buf))) /\ ck_max (fst (fst (ck_loop L k buf))) = ck_max k.
Proof.
  induction buf as [|c t IH]; intros k Hi Hf Hv; cbn [ck_loop].
  - cbn [fst]. destruct Hi as (A & B & C & D & E). split; [|reflexivity].
    unfold ck_inv, ck_set_valid. cbn. repeat split; try assumption.
    unfold ck_done. destruct (ck_state k); congruence.
  - destruct (ck_done k) eqn:Ed.
    + cbn [fst]. destruct Hi as (A & B & C & D & E). split; [|reflexivity].
      unfold ck_inv, ck_set_valid. cbn. repeat split; try assumption. intros _. unfold ck_done in Ed. destruct (ck_state k); congruence.
    + pose proof (ck_parse_char_inv L k c Hi Hf Hv) as H1. destruct (ck_parse_char L k c) as [k1 ok].
      destruct H1 as (A1 & B1 & C1 & D1 & E1 & M1). destruct Hi as (A & B & C & D & E). specialize (C Hf).
      destruct ok.
      * specialize (C1 eq_refl).
        destruct (IH (ck_set_fail k1 false)) as [I1 I2].
        -- unfold ck_inv, ck_set_fail. cbn. repeat split; try assumption; try lia; try (intros; congruence).
        -- reflexivity.
        -- exact E1.
        -- split; [exact I1 | rewrite I2; exact M1].
      * cbn [fst]. split; [|exact M1]. unfold ck_inv, ck_set_fail. cbn. repeat split; try assumption; try lia; intros; congruence.
Qed.

Lemma ck_parse_inv L k buf : ck_inv L k -> ck_valid k = false ->
  ck_inv L (fst (fst (ck_parse L k buf))) /\ ck_max (fst (fst (ck_parse L k buf))) = ck_max k.
Proof.
  intros Hi Hv. unfold ck_parse. destruct (ck_fail k) eqn:Ef; [split; [exact Hi | reflexivity]|]. apply ck_loop_inv; assumption.
Qed.

(* ---- rx_chunk ---- *)
Definition rc_inv (L : limits) (k : rx_chunk) : Prop :=
  ck_inv L (rc_hdr k) /\ hd_inv L (rc_trailers k) /\
  (ck_valid (rc_hdr k) = false -> rc_data k = []) /\
  (ck_valid (rc_hdr k) = true -> nlen (rc_data k) <= ck_size (rc_hdr k)).

Lemma rc_inv_init L m : rc_inv L (rc_init m).
Proof. split; [apply ck_inv_init | split; [apply hd_inv_init | split; [reflexivity | discriminate]]]. Qed.

Lemma rc_data_end_inv L k x : rc_inv L k -> rc_inv L (fst (fst (rc_data_end L k x))) /\
  rc_hdr (fst (fst (rc_data_end L k x))) = rc_hdr k.
Proof.
  intros Hi. unfold rc_data_end. destruct x as [|c t]; [split; [exact Hi | reflexivity]|].
  destruct (rc_cr k).
  - destruct (c =? 10); cbn [fst]; split; try reflexivity; exact Hi.
  - destruct (c =? 13).
    + destruct t as [|d t1]; [cbn [fst]; split; [exact Hi | reflexivity]|].
      destruct (d =? 10); cbn [fst]; split; try reflexivity; exact Hi.
    + destruct (strict_crlf L); [cbn [fst]; split; [exact Hi | reflexivity]|].
      destruct (c =? 10); cbn [fst]; split; try reflexivity; exact Hi.
Qed.

Lemma ck_parse_done_valid L k buf k1 rest : ck_parse L k buf = (k1, rest, Done) -> ck_valid k1 = true.
Proof.
  unfold ck_parse. destruct (ck_fail k); [intros H; inversion H|]. revert k.
  induction buf as [|c t IH]; intros k; cbn [ck_loop].
  - destruct (ck_done k) eqn:Ed; intros H; inversion H; subst. reflexivity.
  - destruct (ck_done k); [intros H; inversion H; subst; reflexivity|].
    destruct (ck_parse_char L k c) as [k2 ok]. destruct ok; [apply IH | intros H; inversion H].
Qed.

Lemma ck_parse_notdone_valid L k buf k1 rest r : ck_valid k = false -> ck_parse L k buf = (k1, rest, r) -> r <> Done ->
  ck_valid k1 = false.
Proof.
  intros Hv. unfold ck_parse. destruct (ck_fail k); [intros H; inversion H; subst; intros _; exact Hv|]. revert k Hv.
  induction buf as [|c t IH]; intros k Hv; cbn [ck_loop].
  - destruct (ck_done k) eqn:Ed; intros H; inversion H; subst; [congruence | intros _; reflexivity].
  - destruct (ck_done k); [intros H; inversion H; subst; congruence|].
    pose proof (ck_parse_char_valid L k c) as Hc. destruct (ck_parse_char L k c) as [k2 ok]. cbn [fst] in Hc. destruct ok.
    + apply IH. cbn. congruence.
    + intros H; inversion H; subst. intros _. cbn. congruence.
Qed.

Lemma rc_parse_inv L k buf : rc_inv L k -> rc_inv L (fst (fst (rc_parse L k buf))) /\
  ck_max (rc_hdr (fst (fst (rc_parse L k buf)))) = ck_max (rc_hdr k).
Proof.
  intros Hi. unfold rc_parse. destruct (rc_fail k); [split; [exact Hi | reflexivity]|].
  destruct Hi as (A & B & C & D).
  destruct (ck_valid (rc_hdr k)) eqn:Ev.
  - (* the size line was complete *)
    specialize (D eq_refl). destruct A as (A1 & A2 & A3 & A4 & A5). pose proof (A5 Ev) as Hst.
    assert (Hsz : ck_size (rc_hdr k) <= ck_max (rc_hdr k)) by (apply A4; rewrite Hst; reflexivity).
    assert (A : ck_inv L (rc_hdr k)) by (repeat split; assumption).
    destruct (ck_size (rc_hdr k) =? 0).
    + pose proof (hd_parse_inv L (rc_trailers k) buf B) as B1. cbn [rc_trailers].
      destruct (hd_parse L (rc_trailers k) buf) as [[t1 buf2] r2]. cbn [fst] in B1.
      destruct r2; cbn [fst]; (split; [|reflexivity]); (split; [exact A | split; [exact B1 | split; [cbn; congruence | cbn; intros _; exact D]]]).
    + cbn [rc_data].
      destruct (ck_size (rc_hdr k) - nlen (rc_data k) <? nlen buf) eqn:El.
      * match goal with |- context [rc_data_end L ?k2 ?x] => destruct (rc_data_end_inv L k2 x) as [I1 I2] end.
        -- split; [exact A | split; [exact B | split; [cbn; congruence|]]]. cbn [rc_hdr rc_data]. intros _.
           rewrite nlen_app'. unfold nlen at 2. rewrite firstn_length. unfold nlen in *. lia.
        -- split; [exact I1 | rewrite I2; reflexivity].
      * cbn [fst]. split; [|reflexivity]. split; [exact A | split; [exact B | split; [cbn; congruence|]]]. cbn [rc_hdr rc_data]. intros _.
        rewrite nlen_app'. lia.
  - specialize (C eq_refl).
    destruct (ck_parse_inv L (rc_hdr k) buf A Ev) as [A1 M1].
    destruct (ck_parse L (rc_hdr k) buf) as [[h1 buf1] r1] eqn:Ep. cbn [fst] in A1, M1.
    destruct r1.
    + pose proof (ck_parse_done_valid _ _ _ _ _ Ep) as Hv1.
      destruct A1 as (X1 & X2 & X3 & X4 & X5). pose proof (X5 Hv1) as Hst.
      assert (Hsz : ck_size h1 <= ck_max h1) by (apply X4; rewrite Hst; reflexivity).
      assert (A1 : ck_inv L h1) by (repeat split; assumption).
      destruct (ck_size h1 =? 0).
      * cbn [rc_trailers]. pose proof (hd_parse_inv L (rc_trailers k) buf1 B) as B1.
        destruct (hd_parse L (rc_trailers k) buf1) as [[t1 buf2] r2]. cbn [fst] in B1.
        destruct r2; cbn [fst]; (split; [|exact M1]); (split; [exact A1 | split; [exact B1 | split; [cbn; congruence | cbn; intros _; rewrite C; unfold nlen; cbn; lia]]]).
      * cbn [rc_data]. rewrite C.
        destruct (ck_size h1 - nlen [] <? nlen buf1) eqn:El.
        -- match goal with |- context [rc_data_end L ?k2 ?x] => destruct (rc_data_end_inv L k2 x) as [I1 I2] end.
           ++ split; [exact A1 | split; [exact B | split; [cbn; congruence|]]]. cbn [rc_hdr rc_data app]. intros _.
              unfold nlen. rewrite firstn_length. unfold nlen in *. cbn [length] in *. lia.
           ++ split; [exact I1 | rewrite I2; exact M1].
        -- cbn [fst]. split; [|exact M1]. split; [exact A1 | split; [exact B | split; [cbn; congruence|]]]. cbn [rc_hdr rc_data app]. intros _.
           unfold nlen in *. cbn [length] in *. lia.
    + pose proof (ck_parse_notdone_valid _ _ _ _ _ _ Ev Ep ltac:(discriminate)) as Hv1.
      cbn [fst]. split; [|exact M1]. split; [exact A1 | split; [exact B | split; [cbn; intros _; exact C | cbn; congruence]]].
    + pose proof (ck_parse_notdone_valid _ _ _ _ _ _ Ev Ep ltac:(discriminate)) as Hv1.
      cbn [fst]. split; [|exact M1]. split; [exact A1 | split; [exact B | split; [cbn; intros _; exact C | cbn; congruence]]].
Qed.

Lemma rc_inv_data_bound L k : rc_inv L k -> nlen (rc_data k) <= ck_max (rc_hdr k).
Proof.
  intros ((A1 & A2 & A3 & A4 & A5) & B & C & D). destruct (ck_valid (rc_hdr k)) eqn:Ev.
  - specialize (D eq_refl). pose proof (A5 eq_refl) as Hst. assert (ck_size (rc_hdr k) <= ck_max (rc_hdr k)) by (apply A4; rewrite Hst; reflexivity). lia.
  - rewrite (C eq_refl). unfold nlen; cbn; lia.
Qed.

(* ---- the receiver ---- *)
Definition ret_inv (cfg : rcfg) (v : receiver) : Prop :=
  rl_bounded (c_lim cfg) (rq_line (rv_req v)) /\ hd_inv (c_lim cfg) (rq_headers (rv_req v)) /\
  nlen (rv_body v) <= c_max_content cfg /\ rc_inv (c_lim cfg) (rv_chunk v) /\
  ck_max (rc_hdr (rv_chunk v)) = c_max_chunk cfg.

Lemma rl_bounded_init L : rl_bounded L rl_init.
Proof. unfold rl_bounded, nlen. cbn. repeat split; intros; try lia; try discriminate. Qed.

Lemma ret_inv_init cfg : ret_inv cfg (rv_init cfg).
Proof.
  split; [apply rl_bounded_init | split; [apply hd_inv_init | split; [unfold nlen; cbn; lia | split; [apply rc_inv_init | reflexivity]]]].
Qed.

Lemma ret_inv_clear cfg v : ret_inv cfg v -> ret_inv cfg (rv_clear v).
Proof.
  intros (A & B & C & D & E). split; [apply rl_bounded_init | split; [apply hd_inv_init | split; [unfold nlen; cbn; lia | split; [apply rc_inv_init | exact E]]]].
Qed.

Lemma ret_inv_code cfg v c : ret_inv cfg v -> ret_inv cfg (rv_set_code v c).
Proof. intros H. exact H. Qed.

Lemma rq_parse_inv L q buf : rl_bounded L (rq_line q) -> hd_inv L (rq_headers q) ->
  rl_bounded L (rq_line (fst (fst (rq_parse L q buf)))) /\ hd_inv L (rq_headers (fst (fst (rq_parse L q buf)))).
Proof.
  intros A B. unfold rq_parse.
  pose proof (rl_parse_bounded L buf (rq_line q) A) as A1.
  destruct (rl_valid (rq_line q)).
  - destruct (hd_valid (rq_headers q)); [cbn; split; assumption|].
    pose proof (hd_parse_inv L (rq_headers q) buf B) as B1.
    destruct (hd_parse L (rq_headers q) buf) as [[h1 b2] r2]. cbn [fst] in B1. destruct r2; cbn; split; assumption.
  - destruct (rl_parse L (rq_line q) buf) as [[l1 b1] r1]. cbn [fst] in A1.
    destruct r1; try (cbn; split; assumption).
    destruct (hd_valid (rq_headers q)); [cbn; split; assumption|].
    pose proof (hd_parse_inv L (rq_headers q) b1 B) as B1.
    destruct (hd_parse L (rq_headers q) b1) as [[h1 b2] r2]. cbn [fst] in B1. destruct r2; cbn; split; assumption.
Qed.

Lemma str_eqb_len a : forall b, str_eqb a b = true -> nlen a = nlen b.
Proof.
  induction a as [|x a IH]; intros [|y b]; cbn [str_eqb]; try discriminate; [reflexivity|].
  intros H. apply Bool.andb_true_iff in H. destruct H as [_ H]. rewrite !nlen_cons. rewrite (IH _ H). reflexivity.
Qed.

Lemma rl_bounded_translate L r : rl_bounded L r -> str_eqb (rl_method r) method_HEAD = true ->
  rl_bounded L (rl_set_method r method_GET).
Proof.
  intros (A & B & C & D) E. pose proof (str_eqb_len _ _ E) as Hl.
  assert (Hg : nlen method_GET + 1 = nlen method_HEAD) by reflexivity.
  unfold rl_bounded, rl_set_method. cbn [rl_method rl_uri rl_state].
  split; [lia | split; [exact B | split; [intros Es; destruct (C Es) as [C1 C2]; split; [lia | exact C2] | exact D]]].
Qed.

Ltac inval H := cbn [fst]; apply ret_inv_clear; exact H.

Lemma receive_cl_inv cfg rp v1 b1 : ret_inv cfg v1 -> ret_inv cfg (fst (fst (receive_cl cfg rp v1 b1))).
Proof.
  intros Hi. pose proof (ret_inv_clear cfg v1 Hi) as Hc. destruct Hi as (A & B & C & D & E).
  unfold receive_cl, invalid. cbv zeta.
  assert (Hi : ret_inv cfg v1) by exact (conj A (conj B (conj C (conj D E)))).
  dif; [inval Hi|].
  destruct (hd_content_length (rq_headers (rv_req v1))) as [n|]; [|match goal with |- context [if ?e then _ else _] => destruct e end; inval Hi].
  set (v2 := if rq_is_trace (rv_req v1) && _ then _ else v1).
  assert (Hv2 : v2 = v1 \/ v2 = rv_set_code v1 code_METHOD_NOT_ALLOWED) by (unfold v2; match goal with |- context [if ?e then _ else _] => destruct e end; auto).
  assert (Hc2 : ret_inv cfg (rv_clear v2)) by (destruct Hv2 as [-> | ->]; exact Hc).
  assert (Hb2 : rv_body v2 = rv_body v1) by (destruct Hv2 as [-> | ->]; reflexivity).
  assert (Hq2 : rv_req v2 = rv_req v1) by (destruct Hv2 as [-> | ->]; reflexivity).
  assert (Hk2 : rv_chunk v2 = rv_chunk v1) by (destruct Hv2 as [-> | ->]; reflexivity).
  assert (Hi2 : ret_inv cfg v2) by (destruct Hv2 as [-> | ->]; exact Hi).
  clearbody v2.
  destruct ((0 <? n) && (c_max_content cfg <? n)) eqn:Ebig; [inval Hi2|].
  dif; [inval Hi2|].
  set (required := (Z.of_N n - Z.of_N (nlen (rv_body v2)))%Z).
  destruct ((required <? 0)%Z && (required <? Z.of_N (nlen b1))%Z) eqn:Eub; [exact Hi2|].
  assert (Hbody : forall body, nlen body <= n -> nlen body <= c_max_content cfg) by (intros body Hle; lia).
  destruct (required <? Z.of_N (nlen b1))%Z eqn:Elt; cbv iota beta.
  - assert (Hlen : nlen (rv_body v2 ++ firstn (Z.to_nat required) b1) <= n).
    { rewrite nlen_app'. unfold nlen at 2. rewrite firstn_length. unfold required in *. unfold nlen in *. lia. }
    specialize (Hbody _ Hlen).
    repeat dif; cbn [fst]; unfold ret_inv, rv_set_code; cbn [rv_req rv_body rv_chunk rq_line rq_headers]; rewrite ?Hq2, ?Hk2;
      (split; [first [exact A | apply rl_bounded_translate; [exact A | match goal with H : rq_is_head _ && _ = true |- _ => apply Bool.andb_true_iff in H; destruct H as [H _]; exact H end]]
              | split; [exact B | split; [exact Hbody | split; [exact D | exact E]]]]).
  - assert (Hlen : nlen (rv_body v2 ++ b1) <= n).
    { rewrite nlen_app'. unfold required in *. unfold nlen in *. lia. }
    specialize (Hbody _ Hlen).
    repeat dif; cbn [fst]; unfold ret_inv, rv_set_code; cbn [rv_req rv_body rv_chunk rq_line rq_headers]; rewrite ?Hq2, ?Hk2;
      (split; [first [exact A | apply rl_bounded_translate; [exact A | match goal with H : rq_is_head _ && _ = true |- _ => apply Bool.andb_true_iff in H; destruct H as [H _]; exact H end]]
              | split; [exact B | split; [exact Hbody | split; [exact D | exact E]]]]).
Qed.

Lemma rc_clear_inv L k : rc_inv L (rc_clear k) /\ ck_max (rc_hdr (rc_clear k)) = ck_max (rc_hdr k).
Proof. split; [apply rc_inv_init | reflexivity]. Qed.

Lemma receive_chunked_inv cfg rp v1 b1 : ret_inv cfg v1 -> ret_inv cfg (fst (fst (receive_chunked cfg rp v1 b1))).
Proof.
  intros Hi. destruct Hi as (A & B & C & D & E).
  unfold receive_chunked, invalid. cbv zeta.
  set (k0 := if rc_valid (rv_chunk v1) then rc_clear (rv_chunk v1) else rv_chunk v1).
  assert (Hk0 : rc_inv (c_lim cfg) k0 /\ ck_max (rc_hdr k0) = c_max_chunk cfg).
  { unfold k0. destruct (rc_valid (rv_chunk v1)); [split; [apply rc_inv_init | exact E] | split; assumption]. }
  destruct Hk0 as [D0 E0]. clearbody k0.
  dif; [cbn [fst]; exact (conj A (conj B (conj C (conj D0 E0))))|].
  dif; [cbn [fst]; exact (conj A (conj B (conj C (conj D0 E0))))|].
  destruct (rc_parse_inv (c_lim cfg) k0 b1 D0) as [D1 E1]. rewrite E0 in E1.
  destruct (rc_parse (c_lim cfg) k0 b1) as [[k1 b2] r2]. cbn [fst] in D1, E1.
  cbn [rv_req rv_body rv_chunk rv_code rv_continue_sent rv_is_head].
  assert (Hi3 : ret_inv cfg (mk_rv (rv_req v1) k1 (rv_body v1) (rv_code v1) (rv_continue_sent v1) (rv_is_head v1)))
    by exact (conj A (conj B (conj C (conj D1 E1)))).
  dif; [inval Hi3|].
  dif; [|cbn [fst]; exact Hi3].
  dif; [|cbn [fst]; exact Hi3].
  dif; [cbn [fst]; exact Hi3|].
  dif; [inval Hi3|].
  cbn [fst]. split; [exact A | split; [exact B | split; [|split; [exact D1 | exact E1]]]].
  cbn [rv_body]. rewrite nlen_app'. lia.
Qed.

Lemma receive_body_inv cfg rp v1 b1 : ret_inv cfg v1 -> ret_inv cfg (fst (fst (receive_body cfg rp v1 b1))).
Proof.
  intros Hi. unfold receive_body. dif; [cbn [fst]; exact Hi|].
  dif; [apply receive_cl_inv | apply receive_chunked_inv]; exact Hi.
Qed.

Theorem receive_ret_inv cfg v buf : ret_inv cfg v -> ret_inv cfg (fst (fst (receive cfg v buf))).
Proof.
  intros Hi. unfold receive. cbv zeta.
  destruct (negb (rq_valid (rv_req v))).
  - destruct Hi as (A & B & C & D & E).
    destruct (rq_parse_inv (c_lim cfg) (rv_req v) buf A B) as [A1 B1].
    destruct (rq_parse (c_lim cfg) (rv_req v) buf) as [[q1 b1] r1]. cbn [fst] in A1, B1.
    assert (Hi1 : ret_inv cfg (mk_rv q1 (rv_chunk v) (rv_body v) (rv_code v) (rv_continue_sent v) (rv_is_head v)))
      by exact (conj A1 (conj B1 (conj C (conj D E)))).
    destruct r1; [apply receive_body_inv; exact Hi1 | |]; unfold invalid; (dif; [inval Hi1 | cbn [fst]; exact Hi1]).
  - rewrite rv_eta. apply receive_body_inv. exact Hi.
Qed.

Lemma dispatch_ret_inv cfg v r : ret_inv cfg v -> ret_inv cfg (fst (dispatch_rx cfg v r)).
Proof.
  intros Hi. unfold dispatch_rx. destruct r; cbn [fst]; try exact Hi; try (apply ret_inv_clear; exact Hi).
  - destruct (c_defer_continue cfg); exact Hi.
  - destruct (negb (rq_is_trace (rv_req v))); [|apply ret_inv_clear; exact Hi].
    destruct (hd_is_chunked (rq_headers (rv_req v)) && negb (c_concat cfg)); [exact Hi | apply ret_inv_clear; exact Hi].
  - destruct (rc_is_last (rv_chunk v)); [apply ret_inv_clear; exact Hi | exact Hi].
Qed.

(* every state the loop passes through: after each receive(), after each dispatch *)
Lemma rx_loop_ret_inv cfg : forall fuel v buf, ret_inv cfg v -> ret_inv cfg (fst (fst (fst (rx_loop fuel cfg v buf)))).
Proof.
  induction fuel as [|fuel IH]; intros v buf Hi; destruct buf as [|c t]; cbn [rx_loop fst]; try exact Hi.
  pose proof (receive_ret_inv cfg v (c :: t) Hi) as H1.
  destruct (receive cfg v (c :: t)) as [[v1 rest] r]. cbn [fst] in H1.
  pose proof (dispatch_ret_inv cfg v1 r H1) as H2. destruct (dispatch_rx cfg v1 r) as [v2 evs]. cbn [fst] in H2.
  destruct r; try (specialize (IH v2 rest H2); destruct (rx_loop fuel cfg v2 rest) as [[[v3 e3] c3] o3]; exact IH); exact H2.
Qed.

Lemma feed_ret_inv cfg : forall frags v, ret_inv cfg v -> ret_inv cfg (fst (fst (fst (feed cfg v frags)))).
Proof.
  induction frags as [|f t IH]; intros v Hi; cbn [feed]; [exact Hi|].
  unfold read_loop. pose proof (rx_loop_ret_inv cfg (loop_fuel f) v f Hi) as H1.
  destruct (rx_loop (loop_fuel f) cfg v f) as [[[v1 e1] c1] o1]. cbn [fst] in H1.
  specialize (IH v1 H1). destruct (feed cfg v1 t) as [[[v2 e2] c2] o2]. exact IH.
Qed.

(* the bound: request line, header block, body, chunk size line, chunk data, trailers *)
Definition ret_bound (cfg : rcfg) : N :=
  (max_method (c_lim cfg) + 1) + (max_uri (c_lim cfg) + 1) + hd_bound (c_lim cfg) + c_max_content cfg
  + c_max_chunk cfg + (max_line (c_lim cfg) + 1) + hd_bound (c_lim cfg).

Theorem ret_inv_bound cfg v : ret_inv cfg v -> retained v <= ret_bound cfg.
Proof.
  intros ((A1 & A2 & _) & B & C & D & E). unfold retained, ret_bound.
  pose proof (hd_inv_bound _ _ B) as HB. pose proof (rc_inv_data_bound _ _ D) as HD. rewrite E in HD.
  destruct D as ((K1 & K2 & _) & T & _). pose proof (hd_inv_bound _ _ T) as HT. lia.
Qed.

Theorem feed_retained_bounded cfg frags : retained (fst (fst (fst (feed cfg (rv_init cfg) frags)))) <= ret_bound cfg.
Proof. apply ret_inv_bound, feed_ret_inv, ret_inv_init. Qed.

(* also between the calls of one read: the state after any prefix of the reads, and the state receive() itself leaves *)
Theorem receive_retained_bounded cfg frags buf :
  retained (fst (fst (receive cfg (fst (fst (fst (feed cfg (rv_init cfg) frags)))) buf))) <= ret_bound cfg.
Proof. apply ret_inv_bound, receive_ret_inv, feed_ret_inv, ret_inv_init. Qed.
