(* Properties_C13.v — C13: application-supplied headers can never split a response.
   Only statements, `exact`, non-vacuity examples and Print Assumptions live here. *)
From Via Require Import M_Char M_Encode P_C13.
Local Open Scope N_scope.

(* A response the library agrees to send (is_valid) has no empty line anywhere before its last
   byte: `has_empty l` = some LF of l is directly followed by LF or by CR LF. *)
Theorem C13_no_early_empty_line : forall (r : tx_response) (n : N),
  no_lf (rs_reason r) -> rs_major r <> 10 -> rs_minor r <> 10 ->
  tx_response_is_valid r = true ->
  has_empty (removelast (response_message r n)) = false.
Proof. exact C13_no_early_empty_line_lemma. Qed.

(* ... and exactly one empty line in all, completed by the last byte, when the header block is
   empty, ends with LF, or the library appends the Content-Length line itself. *)
Theorem C13_single_terminal_empty_line : forall (r : tx_response) (n : N),
  no_lf (rs_reason r) -> rs_major r <> 10 -> rs_minor r <> 10 ->
  tx_response_is_valid r = true ->
  (rs_headers r = [] \/ last (rs_headers r) 0 = 10 \/ response_adds_content_length r = true) ->
  count_empty L0 (response_message r n) = 1%nat.
Proof. exact C13_terminal_empty_line_lemma. Qed.

(* Refusal: any empty line in the block, or at its very start, makes the response invalid -
   which is what every send() overload tests before writing (see Properties_C03/C04 for the
   connection-level half). *)
Theorem C13_split_is_refused : forall (r : tx_response),
  (starts_empty (rs_headers r) = true \/ has_empty (rs_headers r) = true) ->
  tx_response_is_valid r = false.
Proof. intros r H. apply split_refused, C13_detector_complete_lemma, H. Qed.

(* the automaton count and the positional definition agree *)
Theorem C13_count_is_positional : forall l, has_empty l = false <-> count_empty L0 l = 0%nat.
Proof. exact has_empty_count. Qed.

(* non-vacuity: a concrete valid response with two header lines *)
Example C13_example_valid :
  let r := tx_response_of_code 200 [88; 58; 32; 121; 13; 10; 90; 58; 32; 119; 13; 10] in
  tx_response_is_valid r = true /\ count_empty L0 (response_message r 5) = 1%nat
  /\ has_empty (removelast (response_message r 5)) = false.
Proof. vm_compute. repeat split. Qed.

(* the historical failing input: an empty line at the very start of the block *)
Example C13_example_leading_crlf_refused :
  tx_response_is_valid (tx_response_of_code 200 [13; 10; 88; 58; 32; 121; 13; 10]) = false
  /\ tx_response_is_valid (tx_response_of_code 200 [10; 88; 58; 32; 121; 13; 10]) = false.
Proof. vm_compute. split; reflexivity. Qed.

Print Assumptions C13_no_early_empty_line.
Print Assumptions C13_single_terminal_empty_line.
Print Assumptions C13_split_is_refused.
