(* Properties_C13.v — C13: application-supplied headers can never split a response.
   Only statements, `exact`, non-vacuity examples and Print Assumptions live here. *)
From Via Require Import M_Char M_Encode P_C13.
From Via Require Import M_Parse M_Imp M_Loop Gen_Parse P_Split.
Local Open Scope N_scope.

(* A response the library agrees to send (is_valid) has no empty line anywhere before its last
   byte: `has_empty l` = some LF of l is directly followed by LF or by CR LF. *)
Theorem C13_no_early_empty_line : forall (r : tx_response) (n : N),
  no_lf (rs_reason r) -> rs_major r <> 10 -> rs_minor r <> 10 ->
  tx_response_is_valid r = true ->
  has_empty (removelast (response_message r n)) = false.
Proof. exact C13_no_early_empty_line_lemma. Qed.

(* ... and exactly one empty line in all, completed by the last byte, when the header block is
   empty, ends with LF, or the library appends the Content-Length line itself. *)
Theorem C13_single_terminal_empty_line : forall (r : tx_response) (n : N),
  no_lf (rs_reason r) -> rs_major r <> 10 -> rs_minor r <> 10 ->
  tx_response_is_valid r = true ->
  (rs_headers r = [] \/ last (rs_headers r) 0 = 10 \/ response_adds_content_length r = true) ->
  count_empty L0 (response_message r n) = 1%nat.
Proof. exact C13_terminal_empty_line_lemma. Qed.

(* Refusal: any empty line in the block, or at its very start, makes the response invalid -
   which is what every send() overload tests before writing (see Properties_C03/C04 for the
   connection-level half). *)
Theorem C13_split_is_refused : forall (r : tx_response),
  (starts_empty (rs_headers r) = true \/ has_empty (rs_headers r) = true) ->
  tx_response_is_valid r = false.
Proof. intros r H. apply split_refused, C13_detector_complete_lemma, H. Qed.

(* the automaton count and the positional definition agree *)
Theorem C13_count_is_positional : forall l, has_empty l = false <-> count_empty L0 l = 0%nat.
Proof. exact has_empty_count. Qed.

(* non-vacuity: a concrete valid response with two header lines *)
Example C13_example_valid :
  let r := tx_response_of_code 200 [88; 58; 32; 121; 13; 10; 90; 58; 32; 119; 13; 10] in
  tx_response_is_valid r = true /\ count_empty L0 (response_message r 5) = 1%nat
  /\ has_empty (removelast (response_message r 5)) = false.
Proof. vm_compute. repeat split. Qed.

(* the historical failing input: an empty line at the very start of the block *)
Example C13_example_leading_crlf_refused :
  tx_response_is_valid (tx_response_of_code 200 [13; 10; 88; 58; 32; 121; 13; 10]) = false
  /\ tx_response_is_valid (tx_response_of_code 200 [10; 88; 58; 32; 121; 13; 10]) = false.
Proof. vm_compute. split; reflexivity. Qed.

Print Assumptions C13_no_early_empty_line.
Print Assumptions C13_single_terminal_empty_line.
Print Assumptions C13_split_is_refused.

(* ---- the tie to the source, as a theorem ----
   are_headers_split - the predicate by which tx_response::is_valid and every send overload refuse a response - is
   translated from clang's AST on every run (translate/parse.py -> Gen_Parse.v: the initial two-character window, the
   body of the for loop as a statement of M_Imp.v on the store [prev; pprev] and the character *iter, the final value;
   the frame "two locals, if non-empty, for over the string, return" is checked by the translator).  The model's
   are_headers_split, about which the theorems above speak, computes for EVERY header string what the translated
   function computes. *)
Theorem C13_are_headers_split_is_the_source : forall hs,
  run_for (fun _ => 0%N) split_body_src split_final_src (mk_store 0 [] split_init_src) hs = are_headers_split hs.
Proof. exact are_headers_split_is_the_source. Qed.
Example C13_split_source_example :
  run_for (fun _ => 0%N) split_body_src split_final_src (mk_store 0 [] split_init_src) [65;58;49;13;10;13;10;66]%N = true /\
  run_for (fun _ => 0%N) split_body_src split_final_src (mk_store 0 [] split_init_src) [65;58;49;13;10;66;58;50;13;10]%N = false /\
  run_for (fun _ => 0%N) split_body_src split_final_src (mk_store 0 [] split_init_src) [13;10;65]%N = true.
Proof. vm_compute. repeat split. Qed.
Print Assumptions C13_are_headers_split_is_the_source.
