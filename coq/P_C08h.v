(* P_C08h.v — a chunk as the encoders write it (size in hexadecimal, optional extension, CR LF, the data, CR LF) is
   parsed back by rx_chunk: same size, extension and data. *)
From Via Require Import M_Char M_Encode M_Parse P_Parse P_Frag P_C06 P_C08c.
From Coq Require Import Lia ZifyBool ZifyNat ZifyN.
Local Open Scope N_scope.
Arguments nlen : simpl never.
Arguments snoc : simpl never.

Lemma snoc_app2 (s : str) c t : snoc s c ++ t = s ++ c :: t.
Proof. unfold snoc. rewrite <- app_assoc. reflexivity. Qed.

Lemma xdigit_not_blank c : isxdigit c = true -> isblank c = false.
Proof. unfold isxdigit, isdigit, in_range, isblank. lia. Qed.

Lemma xdigit_not_eol c : isxdigit c = true -> is_end_of_line c = false /\ (c =? 59) = false.
Proof. unfold isxdigit, isdigit, in_range, is_end_of_line. lia. Qed.

(* ---- at most 16 hexadecimal digits for a size a size_t can hold ---- *)
Lemma to_base_hex_length : forall f k n acc, (1 <= k)%nat -> n < 16 ^ N.of_nat k ->
  (length (to_base_fuel (S f) 16 hex_digit n acc) <= k + length acc)%nat.
Proof.
  induction f as [|f IH]; intros k n acc Hk Hn; rewrite to_base_fuel_S.
  - destruct (n / 16 =? 0); cbn [to_base_fuel length]; lia.
  - destruct (n / 16 =? 0) eqn:E; [cbn [length]; lia|].
    destruct k as [|[|k]]; [lia | |].
    + change (16 ^ N.of_nat 1) with 16 in Hn. assert (n / 16 = 0) by (apply N.div_small; lia). lia.
    + assert (Hq : n / 16 < 16 ^ N.of_nat (S k)).
      { apply N.div_lt_upper_bound; [lia|]. rewrite <- N.pow_succ_r'. replace (N.succ (N.of_nat (S k))) with (N.of_nat (S (S k))) by lia. exact Hn. }
      specialize (IH (S k) (n / 16) (hex_digit (n mod 16) :: acc) ltac:(lia) Hq). cbn [length] in IH. lia.
Qed.

Lemma hex_string_length n : n <= LONG_MAX -> nlen (to_hex_string n) <= MAX_SIZE_DIGITS.
Proof.
  intros Hn. unfold to_hex_string, nlen.
  pose proof (to_base_hex_length (N.to_nat (N.size n)) 16 n [] ltac:(lia)) as H.
  assert (Hlt : n < 16 ^ N.of_nat 16) by (unfold LONG_MAX in Hn; change (16 ^ N.of_nat 16) with 18446744073709551616; lia).
  specialize (H Hlt). cbn [length] in H. change MAX_SIZE_DIGITS with 16. lia.
Qed.

Lemma hex_string_digits n : forallb isxdigit (to_hex_string n) = true /\ to_hex_string n <> [].
Proof.
  unfold to_hex_string. destruct (to_base_hex (N.to_nat (N.size n)) n [] ltac:(lia)) as [ds [H1 [_ [H3 H4]]]].
  rewrite H1, app_nil_r. split; assumption.
Qed.

(* ---- the size digits ---- *)
Lemma ck_digit_step L k c : ck_state k = K_SIZE_LS \/ ck_state k = K_SIZE -> isxdigit c = true ->
  nlen (ck_hex k) + 1 <= MAX_SIZE_DIGITS -> ck_length k + 1 <= max_line L ->
  ck_parse_char L k c =
  (mk_ck (ck_max k) (ck_size k) (ck_length k + 1) (ck_ws k) (snoc (ck_hex k) c) (ck_ext k) K_SIZE (ck_size_read k) (ck_valid k) (ck_fail k), true).
Proof.
  intros Hs Hc Hh Hl. unfold ck_parse_char. cbv zeta. cbn [ck_length].
  assert (E : (max_line L <? ck_length k + 1) = false) by lia. rewrite E. cbn [ck_state].
  assert (E0 : (MAX_SIZE_DIGITS <? nlen (ck_hex k) + 1) = false) by lia.
  destruct Hs as [Hs | Hs]; rewrite Hs.
  - rewrite (xdigit_not_blank c Hc). unfold ck_size_case, ck_set_state. cbn [ck_max ck_size ck_length ck_ws ck_hex ck_ext ck_state ck_size_read ck_valid ck_fail].
    rewrite Hc. cbv zeta. cbn [ck_hex]. rewrite nlen_snoc, E0. reflexivity.
  - unfold ck_size_case. cbn [ck_max ck_size ck_length ck_ws ck_hex ck_ext ck_state ck_size_read ck_valid ck_fail].
    rewrite Hc. cbv zeta. cbn [ck_hex]. rewrite nlen_snoc, E0, ?Hs. reflexivity.
Qed.

Lemma ck_digits L : forall ds k rest, ck_state k = K_SIZE_LS \/ ck_state k = K_SIZE ->
  forallb isxdigit ds = true -> ds <> [] ->
  nlen (ck_hex k) + nlen ds <= MAX_SIZE_DIGITS -> ck_length k + nlen ds <= max_line L ->
  ck_loop L k (ds ++ rest) =
  ck_loop L (mk_ck (ck_max k) (ck_size k) (ck_length k + nlen ds) (ck_ws k) (ck_hex k ++ ds) (ck_ext k) K_SIZE (ck_size_read k) (ck_valid k) false) rest.
Proof.
  induction ds as [|c ds IH]; intros k rest Hs Hd Hne Hh Hl; [congruence|].
  cbn [forallb] in Hd. apply Bool.andb_true_iff in Hd. destruct Hd as [Hc Hds].
  rewrite nlen_cons in Hh, Hl.
  change ((c :: ds) ++ rest) with (c :: (ds ++ rest)). cbn [ck_loop].
  assert (Hnd : ck_done k = false) by (unfold ck_done; destruct Hs as [-> | ->]; reflexivity). rewrite Hnd.
  rewrite (ck_digit_step L k c Hs Hc ltac:(lia) ltac:(lia)).
  unfold ck_set_fail. cbn [ck_max ck_size ck_length ck_ws ck_hex ck_ext ck_state ck_size_read ck_valid ck_fail].
  destruct ds as [|d ds'].
  - cbn [app]. unfold snoc. rewrite nlen_cons, nlen_nil. replace (ck_length k + (0 + 1)) with (ck_length k + 1) by lia. reflexivity.
  - rewrite IH; [| right; reflexivity | exact Hds | discriminate | cbn [ck_hex]; rewrite nlen_snoc; lia | cbn [ck_length]; lia].
    cbn [ck_max ck_size ck_length ck_ws ck_hex ck_ext ck_size_read ck_valid]. rewrite snoc_app2.
    replace (ck_length k + 1 + nlen (d :: ds')) with (ck_length k + nlen (c :: d :: ds')) by (rewrite !nlen_cons; lia). reflexivity.
Qed.

Lemma ck_loop_cons L k c t : ck_loop L k (c :: t) =
  if ck_done k then (ck_set_valid k true, c :: t, Done)
  else let (k1, ok) := ck_parse_char L k c in
       if ok then ck_loop L (ck_set_fail k1 false) t else (ck_set_fail k1 true, t, Fail).
Proof. reflexivity. Qed.

Ltac ck_step := rewrite ck_loop_cons; unfold ck_done at 1; cbn [ck_state]; unfold ck_parse_char at 1; cbv zeta; cbn [ck_length].
Ltac ck_norm := unfold ck_set_fail, ck_set_state, ck_set_ws; cbn [ck_max ck_size ck_length ck_ws ck_hex ck_ext ck_state ck_size_read ck_valid ck_fail].

(* the end of the line: CR LF *)
Lemma ck_lf L mx sz len ws hex ext rest : len + 1 <= max_line L ->
  ck_loop L (mk_ck mx sz len ws hex ext K_LF true false false) (10 :: rest) =
  (mk_ck mx sz (len + 1) ws hex ext K_VALID true true false, rest, Done).
Proof.
  intros Hl. ck_step. assert (E : (max_line L <? len + 1) = false) by lia. rewrite E. cbn [ck_state N.eqb Pos.eqb]. cbv iota. ck_norm.
  destruct rest as [|x r]; cbn [ck_loop]; unfold ck_done; cbn [ck_state]; unfold ck_set_valid; reflexivity.
Qed.

(* extension characters *)
Definition ext_char (c : byte) : bool := negb (is_end_of_line c).

Lemma ck_ext_chars L : forall es k rest, ck_state k = K_EXTENSION -> forallb ext_char es = true ->
  ck_length k + nlen es <= max_line L ->
  ck_loop L k (es ++ rest) =
  ck_loop L (mk_ck (ck_max k) (ck_size k) (ck_length k + nlen es) (ck_ws k) (ck_hex k) (ck_ext k ++ es) K_EXTENSION (ck_size_read k) (ck_valid k)
                   (match es with [] => ck_fail k | _ => false end)) rest.
Proof.
  induction es as [|c es IH]; intros k rest Hs He Hl.
  - cbn [app]. rewrite app_nil_r, nlen_nil. replace (ck_length k + 0) with (ck_length k) by lia. rewrite <- Hs. destruct k; reflexivity.
  - cbn [forallb] in He. apply Bool.andb_true_iff in He. destruct He as [Hc Hes]. rewrite nlen_cons in Hl.
    change ((c :: es) ++ rest) with (c :: (es ++ rest)). cbn [ck_loop]. unfold ck_done. rewrite Hs.
    unfold ck_parse_char. cbv zeta. cbn [ck_length].
    assert (E : (max_line L <? ck_length k + 1) = false) by lia. rewrite E. cbn [ck_state]. rewrite Hs.
    unfold ck_ext_case. unfold ext_char in Hc. rewrite Hc. ck_norm.
    rewrite IH; [| reflexivity | exact Hes | cbn [ck_length]; lia].
    cbn [ck_max ck_size ck_length ck_ws ck_hex ck_ext ck_size_read ck_valid ck_fail]. rewrite snoc_app2.
    replace (ck_length k + 1 + nlen es) with (ck_length k + nlen (c :: es)) by (rewrite nlen_cons; lia).
    destruct es; reflexivity.
Qed.

Theorem chunk_header_roundtrip L mx size ext rest :
  size <= mx -> size <= LONG_MAX -> 1 <= max_ws L ->
  forallb ext_char ext = true -> (match ext with c :: _ => isblank c = false | [] => True end) ->
  nlen (chunk_header_string size ext) <= max_line L ->
  exists k1, ck_parse L (ck_init mx) (chunk_header_string size ext ++ rest) = (k1, rest, Done) /\
             ck_size k1 = size /\ ck_ext k1 = ext /\ ck_hex k1 = to_hex_string size /\ ck_valid k1 = true /\ ck_max k1 = mx /\ ck_fail k1 = false.
Proof.
  intros Hmx Hlm Hws He Hb Hlen.
  destruct (hex_string_digits size) as [Hd Hne]. pose proof (hex_string_length size Hlm) as Hdl.
  pose proof (hex_roundtrip size Hlm) as Hrt.
  unfold chunk_header_string in *. rewrite !nlen_app' in Hlen. change (nlen CRLF) with 2 in Hlen.
  unfold ck_parse. cbn [ck_fail ck_init]. rewrite <- !app_assoc.
  rewrite (ck_digits L (to_hex_string size) (ck_init mx) _ (or_introl eq_refl) Hd Hne);
    [| cbn [ck_hex ck_init]; rewrite nlen_nil; lia | cbn [ck_length ck_init]; lia].
  cbn [ck_max ck_size ck_length ck_ws ck_hex ck_ext ck_size_read ck_valid ck_init app].
  set (hx := to_hex_string size) in *. set (n := nlen hx) in *.
  destruct ext as [|e0 es].
  - (* no extension: CR LF *)
    cbn [ext_string app] in *. rewrite nlen_nil in Hlen. change CRLF with [13; 10]. cbn [app].
    ck_step. assert (E : (max_line L <? 0 + n + 1) = false) by lia. rewrite E. cbn [ck_state].
    unfold ck_size_case. change (isxdigit 13) with false. change (is_end_of_line 13) with true. cbn [orb]. cbv iota zeta.
    cbn [ck_max ck_hex]. fold hx. rewrite Hrt.
    assert (E2 : (mx <? size) = false) by lia. rewrite E2. cbn [N.eqb Pos.eqb]. cbv iota. ck_norm.
    rewrite ck_lf by lia. eexists. split; [reflexivity|]. cbn. repeat split; reflexivity.
  - (* "; " extension CR LF *)
    cbn [ext_string app] in Hlen. cbn [ext_string]. rewrite <- !app_assoc. cbn [app]. cbn [forallb] in He. apply Bool.andb_true_iff in He. destruct He as [He0 Hes].
    rewrite nlen_cons, nlen_cons, nlen_cons in Hlen.
    ck_step. assert (E : (max_line L <? 0 + n + 1) = false) by lia. rewrite E. cbn [ck_state].
    unfold ck_size_case. change (isxdigit 59) with false. change (is_end_of_line 59) with false. cbn [orb N.eqb Pos.eqb]. cbv iota zeta.
    cbn [ck_max ck_hex]. fold hx. rewrite Hrt.
    assert (E2 : (mx <? size) = false) by lia. rewrite E2. ck_norm.
    (* the blank *)
    ck_step. assert (E3 : (max_line L <? 0 + n + 1 + 1) = false) by lia. rewrite E3. cbn [ck_state]. change (isblank 32) with true. cbv iota. ck_norm.
    assert (E4 : (max_ws L <? 0 + 1) = false) by lia. rewrite E4. ck_norm.
    (* the first extension character *)
    ck_step. assert (E5 : (max_line L <? 0 + n + 1 + 1 + 1) = false) by lia. rewrite E5. cbn [ck_state]. rewrite Hb.
    unfold ck_ext_case. unfold ext_char in He0. ck_norm. rewrite He0. ck_norm.
    match goal with |- context [ck_loop L ?k (es ++ ?r)] => rewrite (ck_ext_chars L es k r eq_refl Hes) by (cbn [ck_length]; lia) end.
    cbn [ck_max ck_size ck_length ck_ws ck_hex ck_ext ck_size_read ck_valid ck_fail].
    (* CR LF *)
    change CRLF with [13; 10]. cbn [app].
    ck_step. assert (E6 : (max_line L <? 0 + n + 1 + 1 + 1 + nlen es + 1) = false) by lia. rewrite E6. cbn [ck_state].
    unfold ck_ext_case. change (is_end_of_line 13) with true. cbn [negb N.eqb Pos.eqb]. cbv iota. ck_norm.
    assert (Hfl : forall b, (match es with [] => b | _ => false end) = false -> True) by (intros; exact I).
    replace (match es with [] => false | _ :: _ => false end) with false by (destruct es; reflexivity).
    rewrite ck_lf by lia. eexists. split; [reflexivity|]. cbn. unfold snoc. cbn [app]. repeat split; reflexivity.
Qed.

(* ---- a whole chunk: size line, data, CR LF ---- *)
Theorem chunk_roundtrip L mx data ext rest :
  data <> [] -> nlen data <= mx -> nlen data <= LONG_MAX -> 1 <= max_ws L ->
  forallb ext_char ext = true -> (match ext with c :: _ => isblank c = false | [] => True end) ->
  nlen (chunk_header_string (nlen data) ext) <= max_line L ->
  exists k, rc_parse L (rc_init mx) (chunk_header_string (nlen data) ext ++ data ++ [13; 10] ++ rest) = (k, rest, Done) /\
            rc_data k = data /\ ck_size (rc_hdr k) = nlen data /\ ck_ext (rc_hdr k) = ext /\ rc_valid k = true /\ rc_fail k = false.
Proof.
  intros Hne Hmx Hlm Hws He Hb Hlen.
  destruct (chunk_header_roundtrip L mx (nlen data) ext (data ++ [13; 10] ++ rest) Hmx Hlm Hws He Hb Hlen)
    as [h1 [Hp [Hsz [Hext [_ [Hv [Hm Hf]]]]]]].
  unfold rc_parse. cbn [rc_fail rc_init rc_hdr ck_valid ck_init]. fold (ck_init mx). rewrite Hp.
  cbn [rc_data rc_trailers rc_valid rc_cr rc_fail]. rewrite Hsz.
  assert (E0 : (nlen data =? 0) = false) by (destruct data; [congruence | rewrite nlen_cons; lia]). rewrite E0.
  change (rc_data (rc_init mx)) with (@nil N). change (rc_trailers (rc_init mx)) with hd_init. change (rc_valid (rc_init mx)) with false. change (rc_cr (rc_init mx)) with false.
  change (nlen []) with 0. replace (nlen data - 0) with (nlen data) by lia.
  rewrite nlen_app'. assert (E1 : (nlen data <? nlen data + nlen ([13; 10] ++ rest)) = true) by (rewrite nlen_app'; change (nlen [13; 10]) with 2; lia).
  rewrite E1. replace (N.to_nat (nlen data)) with (length data) by (unfold nlen; lia).
  rewrite firstn_app_exact, skipn_app_exact. cbn [app].
  unfold rc_data_end. cbn [rc_cr N.eqb Pos.eqb]. cbv iota.
  eexists. split; [reflexivity|]. cbn [rc_data rc_hdr rc_valid rc_fail]. repeat split; assumption.
Qed.

(* ---- the last chunk with its trailers ---- *)
From Via Require Import P_C08 P_C02 P_C08b P_C08e.

Theorem last_chunk_roundtrip L mx ext ts rest :
  1 <= max_ws L -> forallb ext_char ext = true -> (match ext with c :: _ => isblank c = false | [] => True end) ->
  nlen (chunk_header_string 0 ext) <= max_line L ->
  Forall (line_ok L) ts -> within L [] 0 ts ->
  exists k, rc_parse L (rc_init mx) (last_chunk_string ext (lines_bytes ts) ++ rest) = (k, rest, Done) /\
            ck_size (rc_hdr k) = 0 /\ ck_ext (rc_hdr k) = ext /\ rc_data k = [] /\
            hd_fields (rc_trailers k) = fold_left add_line ts [] /\ rc_valid k = true.
Proof.
  intros Hws He Hb Hlen Hok Hwi.
  assert (Hs : last_chunk_string ext (lines_bytes ts) ++ rest = chunk_header_string 0 ext ++ lines_bytes ts ++ [13; 10] ++ rest).
  { unfold last_chunk_string, chunk_header_string. change (to_hex_string 0) with [48]. change CRLF with [13; 10]. rewrite <- !app_assoc. reflexivity. }
  rewrite Hs.
  destruct (chunk_header_roundtrip L mx 0 ext (lines_bytes ts ++ [13; 10] ++ rest) ltac:(lia) ltac:(unfold LONG_MAX; lia) Hws He Hb Hlen)
    as [h1 [Hp [Hsz [Hext [_ [Hv [Hm Hf]]]]]]].
  unfold rc_parse. cbn [rc_fail rc_init rc_hdr ck_valid ck_init]. fold (ck_init mx). rewrite Hp.
  rewrite Hsz. cbn [N.eqb]. cbn [rc_trailers rc_data rc_valid rc_cr rc_fail].
  change (rc_trailers (rc_init mx)) with hd_init. change (rc_data (rc_init mx)) with (@nil N).
  unfold hd_parse. cbn [hd_fail hd_init]. fold hd_init.
  destruct (header_block_roundtrip L ts (S (S (length (lines_bytes ts ++ [13; 10] ++ rest)))) hd_init rest Hws Hok eq_refl eq_refl eq_refl Hwi) as [h' [H1 [H2 [H3 H4]]]].
  { pose proof (lines_bytes_length L ts Hok). rewrite app_length. lia. }
  rewrite H1. eexists. split; [reflexivity|]. cbn [rc_hdr rc_data rc_trailers rc_valid]. repeat split; assumption.
Qed.
