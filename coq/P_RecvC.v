(* P_RecvC.v — the hand-written model of response_receiver::receive (M_Receive.creceive) computes, for every receiver in
   a state the client connection can reach, every input and every sufficient fuel, what the body of the C++ function
   computes - the body as translated from clang's AST on this run (Gen_Parse.cv_receive_src, cv_clear_src), under the
   meaning of M_Recv.v, whose calls run the translated functions of the layers below (rx_response::parse and clear,
   rx_chunk::parse / clear / fail, message_headers::is_chunked). *)
From Via Require Import M_Char M_Parse M_Receive M_Imp M_Loop M_Hdr M_Msg M_Chunk M_Query M_Recv Gen_Parse.
From Via Require Import P_Imp P_Loop P_Frag P_Hdr P_Msg P_Term P_TermC P_C06 P_C06b P_Chunk P_Query P_Recv.
From Coq Require Import List NArith ZArith Bool Lia.
Import ListNotations.
Local Open Scope N_scope.

Definition cv_store (c : creceiver) : rstore := mk_rs (rp_store (cv_rsp c)) (rc_store (cv_chunk c)) (cv_body c) [].
Definition ccode_of (L : limits) : rcode :=
  mk_rcode (sl_code_of L) (hd_code_of L) rs_parse_src rs_clear_src (kc_of L) (rc_src L) rc_clear_src rc_fail_src.

Definition q_head : rstmt := (RIf RParsed (RIf (RNot RReqParse) (RIf (ROr (ROr RMore RReqLineFail) RReqHdrFail) (RSeq RClear (RReturn VX_INVALID)) (RReturn VX_INCOMPLETE)) RSkip) RSkip).
Definition q_cl_neg : rstmt := (RIf (RZCmp RLt RZCl (RZLit 0)) (RSeq RClear (RReturn VX_INVALID)) RSkip).
Definition q_cl_nocl : rstmt := (RLetNoCl (RAnd (RAnd (RZCmp RGt RZRx (RZLit 0)) (RZCmp REq RZCl (RZLit 0))) (RFindEmpty hf_LC_CONTENT_LENGTH))).
Definition q_cl_assign : rstmt := (RIf RNoCl (RAssignCl RZMaxContent) RSkip).
Definition q_cl_take : rstmt := (RIf (RZCmp RGt RZRx RZReq) (RSeq (RIf RNoCl (RSeq RClear (RReturn VX_INVALID)) RSkip) (RSeq RLetNext (RSeq RInsertToNext RJumpNext))) (RIf RMore (RSeq RInsertRest RJumpEnd) RSkip)).
Definition q_cl_done : rstmt := (RIf RBodyIsContentLength (RReturn VX_VALID) RSkip).
Definition q_ch_clear : rstmt := (RIf RChunkValid RChunkClear RSkip).
Definition q_ch_first : rstmt := (RIf RParsed (RReturn VX_VALID) RSkip).
Definition q_ch_parse : rstmt := (RIf (RNot RChunkParse) (RIf (ROr RMore RChunkFail) (RSeq RClear (RReturn VX_INVALID)) RSkip) RSkip).
Definition q_ch_done : rstmt := (RIf RChunkValid (RReturn VX_CHUNK) RSkip).
Definition q_cl : rstmt := (RSeq (RLetCl RZContentLength) (RSeq q_cl_neg (RSeq (RLetRx RZDistance) (RSeq q_cl_nocl (RSeq q_cl_assign (RSeq (RLetReq (RZSub RZCl RZBodySize)) (RSeq q_cl_take q_cl_done))))))).
Definition q_chunked : rstmt := (RSeq q_ch_clear (RSeq q_ch_first (RSeq q_ch_parse q_ch_done))).
Lemma cv_receive_src_shape :
  cv_receive_src = RSeq (RLetParsed (RNot RReqValid)) (RSeq q_head (RSeq (RIf (RNot (RQuery rp_is_chunked_src)) q_cl q_chunked) (RReturn VX_INCOMPLETE))).
Proof. reflexivity. Qed.

Section WithCfg.
  Variable cfg : ccfg.
  Variable fuel : nat.
  Notation L := (cc_lim cfg).
  Definition MAXB : N := cc_max_body cfg.
  Notation RC := (rexec_clear (sl_lim L) (fl_lim L) (hd_lim L) (ck_lim L) (ccode_of L) MAXB false false cv_clear_src fuel).
  Notation RX := (rexec_gen (sl_lim L) (fl_lim L) (hd_lim L) (ck_lim L) (ccode_of L) MAXB false false fuel RC).
  Notation RE := (reval (sl_lim L) (fl_lim L) (hd_lim L) (ck_lim L) (ccode_of L) MAXB false false fuel).

  Definition stc (c : creceiver) (i : str) (p : bool) (rx cl rq : Z) (nx : str) (nc : bool) : rstate := mk_rst (cv_store c) i p rx cl rq nx nc.

  (* ---- control structure ---- *)
  Lemma cx_seq a b s : RX (RSeq a b) s = match RX a s with Some (None, s1) => RX b s1 | r => r end.
  Proof. reflexivity. Qed.
  Lemma cx_if c t e s : RX (RIf c t e) s = match RE c s with Some (v, s1) => if v then RX t s1 else RX e s1 | None => None end.
  Proof. reflexivity. Qed.
  Lemma cx_skip s : RX RSkip s = Some (None, s).
  Proof. reflexivity. Qed.
  Lemma cx_return x s : RX (RReturn x) s = Some (Some x, s).
  Proof. reflexivity. Qed.
  Lemma ce_not a s : RE (RNot a) s = match RE a s with Some (v, s1) => Some (negb v, s1) | None => None end.
  Proof. reflexivity. Qed.
  Lemma ce_and a b s : RE (RAnd a b) s = match RE a s with Some (true, s1) => RE b s1 | r => r end.
  Proof. reflexivity. Qed.
  Lemma ce_or a b s : RE (ROr a b) s = match RE a s with Some (false, s1) => RE b s1 | r => r end.
  Proof. reflexivity. Qed.

  (* ---- atoms ---- *)
  Lemma c_parsed c i p rx cl rq nx nc : RE RParsed (stc c i p rx cl rq nx nc) = Some (p, stc c i p rx cl rq nx nc).
  Proof. reflexivity. Qed.
  Lemma c_nocl c i p rx cl rq nx nc : RE RNoCl (stc c i p rx cl rq nx nc) = Some (nc, stc c i p rx cl rq nx nc).
  Proof. reflexivity. Qed.
  Lemma c_more c i p rx cl rq nx nc : RE RMore (stc c i p rx cl rq nx nc) = Some (nonempty i, stc c i p rx cl rq nx nc).
  Proof. reflexivity. Qed.
  Lemma c_rsp_valid c i p rx cl rq nx nc : RE RReqValid (stc c i p rx cl rq nx nc) = Some (rp_valid (cv_rsp c), stc c i p rx cl rq nx nc).
  Proof. destruct c as [q k body]; destruct q as [l h vl]; destruct vl; reflexivity. Qed.
  Lemma c_line_fail c i p rx cl rq nx nc : RE RReqLineFail (stc c i p rx cl rq nx nc) = Some (sl_fail (rp_line (cv_rsp c)), stc c i p rx cl rq nx nc).
  Proof.
    destruct c as [q k body]; destruct q as [l h vl]. unfold stc, cv_store, rp_store.
    cbn [reval r_store req_line rs_req ms_line cv_rsp rp_line xc_line ccode_of lc_fail sl_code_of].
    destruct l as [st rs ma mi s ws sr vv f]; destruct f; reflexivity.
  Qed.
  Lemma c_hdr_fail c i p rx cl rq nx nc : RE RReqHdrFail (stc c i p rx cl rq nx nc) = Some (hd_fail (rp_headers (cv_rsp c)), stc c i p rx cl rq nx nc).
  Proof.
    destruct c as [q k body]; destruct q as [l h vl]. unfold stc, cv_store, rp_store.
    cbn [reval r_store r_in req_headers rs_req ms_hdr cv_rsp rp_headers xc_hdr ccode_of hc_fail hc_field hd_code_of].
    destruct h as [flds f v fa cr len]; destruct fa; reflexivity.
  Qed.

  Lemma c_is_chunked c i p rx cl rq nx nc :
    RE (RQuery rp_is_chunked_src) (stc c i p rx cl rq nx nc) = Some (hd_is_chunked (rp_headers (cv_rsp c)), stc c i p rx cl rq nx nc).
  Proof.
    destruct c as [q k body]; destruct q as [l h vl]. unfold stc, cv_store, rp_store, rp_is_chunked_src.
    cbn [reval r_store rq_eval]. unfold req_fields, req_headers. cbn [rs_req ms_hdr cv_rsp rp_headers hd_store hs_fields].
    rewrite hq_eval_fields, hd_is_chunked_is_the_source. reflexivity.
  Qed.
  Lemma c_find_empty name c i p rx cl rq nx nc :
    RE (RFindEmpty name) (stc c i p rx cl rq nx nc) = Some (negb (nonempty (hd_find (rp_headers (cv_rsp c)) name)), stc c i p rx cl rq nx nc).
  Proof.
    destruct c as [q k body]; destruct q as [l h vl]. unfold stc, cv_store, rp_store.
    cbn [reval r_store]. unfold req_fields, req_headers. cbn [rs_req ms_hdr cv_rsp rp_headers hd_store hs_fields].
    rewrite hd_find_fields. destruct (hd_find h name); reflexivity.
  Qed.

  Definition cwith_rsp (c : creceiver) (q : rx_response) : creceiver := mk_cv q (cv_chunk c) (cv_body c).
  Definition cwith_chunk (c : creceiver) (k : rx_chunk) : creceiver := mk_cv (cv_rsp c) k (cv_body c).
  Definition cwith_body (c : creceiver) (b : str) : creceiver := mk_cv (cv_rsp c) (cv_chunk c) b.

  Lemma c_rsp_parse c i p rx cl rq nx nc : hd_ok (rp_headers (cv_rsp c)) -> (length i + 2 <= fuel)%nat ->
    RE RReqParse (stc c i p rx cl rq nx nc) =
    (let '(q1, b1, r1) := rp_parse L (cv_rsp c) i in Some (is_done r1, stc (cwith_rsp c q1) b1 p rx cl rq nx nc)).
  Proof.
    intros Hok Hf. destruct c as [q k body]. unfold stc, cv_store, cwith_rsp.
    cbn [reval r_store r_in rs_req rs_chunk rs_body rs_nums cv_rsp cv_chunk cv_body xc_line xc_hdr xc_req_parse ccode_of] in *.
    rewrite (rp_parse_is_the_source L q i fuel Hok Hf). destruct (rp_parse L q i) as [[q1 b1] r1]. reflexivity.
  Qed.

  Lemma cclear_runs c i p rx cl rq nx nc : RC (stc c i p rx cl rq nx nc) = Some (None, stc (cv_clear c) i p rx cl rq nx nc).
  Proof.
    destruct c as [q k body]. unfold rexec_clear, cv_clear_src, stc, cv_store, ccode_of.
    cbn [rexec_gen r_store r_in r_parsed r_rx M_Recv.r_cl r_req r_next r_nocl rs_req rs_chunk rs_body rs_nums rwith rwith_in
         xc_line xc_hdr xc_req_clear xc_size_line xc_chunk_clear cv_rsp cv_chunk cv_body].
    rewrite rp_clear_is_the_source. cbn [m_store r_store r_in rs_req rs_chunk rs_body rs_nums rwith].
    rewrite rc_clear_is_the_source. reflexivity.
  Qed.

  Lemma cinvalid_runs c i p rx cl rq nx nc :
    RX (RSeq RClear (RReturn VX_INVALID)) (stc c i p rx cl rq nx nc) = Some (Some VX_INVALID, stc (cv_clear c) i p rx cl rq nx nc).
  Proof.
    rewrite cx_seq. change (RX RClear (stc c i p rx cl rq nx nc)) with (RC (stc c i p rx cl rq nx nc)).
    rewrite cclear_runs. reflexivity.
  Qed.

  (* ---- the Content-Length branch ---- *)
  Definition cclz (c : creceiver) : Z :=
    match hd_content_length (rp_headers (cv_rsp c)) with Some n => Z.of_N n | None => (-1)%Z end.
  Lemma ccontent_length_of_store c : content_length_of (cv_store c) = cclz c.
  Proof. destruct c as [q k body]; destruct q as [l h vl]. reflexivity. Qed.

  Lemma clet_cl_runs c i p rx cl rq nx nc :
    RX (RLetCl RZContentLength) (stc c i p rx cl rq nx nc) = Some (None, stc c i p rx (cclz c) rq nx nc).
  Proof. unfold stc. cbn [rexec_gen rzeval r_store]. rewrite ccontent_length_of_store. reflexivity. Qed.
  Lemma clet_rx_runs c i p rx cl rq nx nc :
    RX (RLetRx RZDistance) (stc c i p rx cl rq nx nc) = Some (None, stc c i p (Z.of_nat (length i)) cl rq nx nc).
  Proof. reflexivity. Qed.
  Lemma c_cl_lt0 c i p rx cl rq nx nc : RE (RZCmp RLt RZCl (RZLit 0)) (stc c i p rx cl rq nx nc) = Some ((cl <? 0)%Z, stc c i p rx cl rq nx nc).
  Proof. reflexivity. Qed.
  Lemma c_cl_eq0 c i p rx cl rq nx nc : RE (RZCmp REq RZCl (RZLit 0)) (stc c i p rx cl rq nx nc) = Some ((cl =? 0)%Z, stc c i p rx cl rq nx nc).
  Proof. reflexivity. Qed.
  Lemma c_rx_gt0 c i p rx cl rq nx nc : RE (RZCmp RGt RZRx (RZLit 0)) (stc c i p rx cl rq nx nc) = Some ((0 <? rx)%Z, stc c i p rx cl rq nx nc).
  Proof. reflexivity. Qed.
  Lemma c_rx_gt_req c i p rx cl rq nx nc : RE (RZCmp RGt RZRx RZReq) (stc c i p rx cl rq nx nc) = Some ((rq <? rx)%Z, stc c i p rx cl rq nx nc).
  Proof. reflexivity. Qed.
  Lemma c_body_is_cl c i p rx cl rq nx nc :
    RE RBodyIsContentLength (stc c i p rx cl rq nx nc) = Some (nlen (cv_body c) =? to_size_t (cclz c), stc c i p rx cl rq nx nc).
  Proof. unfold stc. cbn [reval r_store]. rewrite ccontent_length_of_store. destruct c; reflexivity. Qed.
  Lemma cassign_cl_runs c i p rx cl rq nx nc :
    RX (RAssignCl RZMaxContent) (stc c i p rx cl rq nx nc) = Some (None, stc c i p rx (to_ptrdiff (cc_max_body cfg)) rq nx nc).
  Proof. reflexivity. Qed.
  Lemma clet_req_runs c i p rx cl rq nx nc :
    RX (RLetReq (RZSub RZCl RZBodySize)) (stc c i p rx cl rq nx nc) =
    (if in_ptrdiff (cl - to_ptrdiff (nlen (cv_body c))) then Some (None, stc c i p rx cl (cl - to_ptrdiff (nlen (cv_body c)))%Z nx nc) else None).
  Proof. destruct c as [q k body]. unfold stc, cv_store. cbn [rexec_gen rzeval r_store rs_body M_Recv.r_cl cv_body].
         destruct (in_ptrdiff (cl - to_ptrdiff (nlen body))); reflexivity. Qed.

  Lemma ctake_next_runs c i p rx cl rq nx nc : (0 <= rq)%Z -> (rq <= Z.of_nat (length i))%Z ->
    RX (RSeq RLetNext (RSeq RInsertToNext RJumpNext)) (stc c i p rx cl rq nx nc) =
    Some (None, stc (cwith_body c (cv_body c ++ firstn (Z.to_nat rq) i)) (skipn (Z.to_nat rq) i) p rx cl rq (skipn (Z.to_nat rq) i) nc).
  Proof.
    intros H0 H1. destruct c as [q k body]. unfold stc, cv_store, cwith_body.
    cbn [rexec_gen r_store r_in r_parsed r_rx M_Recv.r_cl r_req r_next r_nocl rs_req rs_chunk rs_body rs_nums rwith rwith_in cv_rsp cv_chunk cv_body].
    assert (E : ((0 <=? rq) && (rq <=? Z.of_nat (length i)))%Z = true) by (apply andb_true_intro; split; apply Z.leb_le; assumption).
    rewrite E. cbn [r_store r_in r_parsed r_rx M_Recv.r_cl r_req r_next r_nocl rs_req rs_chunk rs_body rs_nums].
    rewrite (firstn_skipn_len i (Z.to_nat rq)) by lia. reflexivity.
  Qed.
  Lemma ctake_rest_runs c i p rx cl rq nx nc :
    RX (RIf RMore (RSeq RInsertRest RJumpEnd) RSkip) (stc c i p rx cl rq nx nc) = Some (None, stc (cwith_body c (cv_body c ++ i)) [] p rx cl rq nx nc).
  Proof.
    destruct c as [q k body]. unfold stc, cv_store, cwith_body. destruct i as [|x t].
    - cbn [rexec_gen reval r_in]. rewrite app_nil_r. reflexivity.
    - reflexivity.
  Qed.

  (* ---- the chunked branch ---- *)
  Lemma c_chunk_valid c i p rx cl rq nx nc : RE RChunkValid (stc c i p rx cl rq nx nc) = Some (rc_valid (cv_chunk c), stc c i p rx cl rq nx nc).
  Proof. destruct c as [q k body]; destruct k as [h data tr vl cr fa]; destruct vl; reflexivity. Qed.
  Lemma cchunk_clear_runs c i p rx cl rq nx nc :
    RX RChunkClear (stc c i p rx cl rq nx nc) = Some (None, stc (cwith_chunk c (rc_clear (cv_chunk c))) i p rx cl rq nx nc).
  Proof.
    destruct c as [q k body]. unfold stc, cv_store, cwith_chunk, ccode_of.
    cbn [rexec_gen r_store r_in r_parsed r_rx M_Recv.r_cl r_req r_next r_nocl rs_req rs_chunk rs_body rs_nums rwith
         xc_size_line xc_hdr xc_chunk_clear cv_rsp cv_chunk cv_body].
    rewrite rc_clear_is_the_source. reflexivity.
  Qed.
  Lemma c_chunk_fail c i p rx cl rq nx nc : RE RChunkFail (stc c i p rx cl rq nx nc) = Some (rc_failed (cv_chunk c), stc c i p rx cl rq nx nc).
  Proof.
    destruct c as [q k body]; destruct k as [h data tr vl cr fa]. unfold stc, cv_store, rc_store, ccode_of, rc_failed, rc_fail_src.
    cbn [reval ceval r_store r_in rs_chunk c_store c_in cs_hdr cs_trailers cs_nums cnum nth xc_size_line xc_hdr xc_chunk_fail kc_fail kc_of hc_fail hc_field hd_code_of
         cv_chunk rc_hdr rc_trailers rc_fail].
    destruct fa; cbn [b2n N.eqb negb orb]; [reflexivity|].
    replace (fst (beval (ck_lim L) 0 ck_fail_src (ck_store h))) with (ck_fail h)
      by (destruct h as [mx sz len ws hx ex s sr vv f]; destruct f; reflexivity).
    destruct (ck_fail h); [reflexivity|]. cbn [c_store c_in cs_trailers].
    destruct tr as [flds f v fa2 cr2 len]; destruct fa2; reflexivity.
  Qed.
  Lemma c_chunk_parse c i p rx cl rq nx nc :
    rc_inv L (cv_chunk c) -> hd_ok (rc_trailers (cv_chunk c)) -> small (ck_max (rc_hdr (cv_chunk c))) -> (length i + 2 <= fuel)%nat ->
    RE RChunkParse (stc c i p rx cl rq nx nc) =
    (let '(k1, b2, r2) := rc_parse L (cv_chunk c) i in Some (is_done r2, stc (cwith_chunk c k1) b2 p rx cl rq nx nc)).
  Proof.
    intros Hi Hok Hs Hf. destruct c as [q k body]. unfold stc, cv_store, cwith_chunk, ccode_of.
    cbn [reval r_store r_in rs_req rs_chunk rs_body rs_nums cv_rsp cv_chunk cv_body xc_size_line xc_hdr xc_chunk_parse] in *.
    rewrite (rc_parse_is_the_source L k i fuel Hi Hok Hs Hf). destruct (rc_parse L k i) as [[k1 b2] r2]. reflexivity.
  Qed.

  Definition coutr (r : option (option rxv * rstate)) : option (rxv * rstore * str) :=
    match r with Some (Some x, s) => Some (x, r_store s, r_in s) | _ => None end.
  Definition cres (x : creceiver * str * rx) : option (rxv * rstore * str) :=
    let '(v', rest, r) := x in match rx_of r with Some c => Some (c, cv_store v', rest) | None => None end.
  Definition cafter (r : option (option rxv * rstate)) : option (option rxv * rstate) :=
    match r with Some (None, s1) => RX (RReturn VX_INCOMPLETE) s1 | r => r end.

  Lemma clet_parsed_runs c i p rx cl rq nx nc :
    RX (RLetParsed (RNot RReqValid)) (stc c i p rx cl rq nx nc) = Some (None, stc c i (negb (rp_valid (cv_rsp c))) rx cl rq nx nc).
  Proof.
    change (RX (RLetParsed (RNot RReqValid)) (stc c i p rx cl rq nx nc))
      with (match RE (RNot RReqValid) (stc c i p rx cl rq nx nc) with
            | Some (b, s1) => Some (@None rxv, mk_rst (r_store s1) (r_in s1) b (r_rx s1) (M_Recv.r_cl s1) (r_req s1) (r_next s1) (r_nocl s1)) | None => None end).
    rewrite ce_not, c_rsp_valid. reflexivity.
  Qed.

  Lemma chead_runs c buf : hd_ok (rp_headers (cv_rsp c)) -> (length buf + 2 <= fuel)%nat ->
    RX (RSeq (RLetParsed (RNot RReqValid)) q_head) (stc c buf false 0 0 0 [] false) =
    (let response_parsed := negb (rp_valid (cv_rsp c)) in
     let '(q1, b1, r1) := if response_parsed then rp_parse L (cv_rsp c) buf else (cv_rsp c, buf, Done) in
     let c1 := cwith_rsp c q1 in
     match r1 with
     | Done => Some (None, stc c1 b1 response_parsed 0 0 0 [] false)
     | _ => if nonempty b1 || sl_fail (rp_line q1) || hd_fail (rp_headers q1)
            then Some (Some VX_INVALID, stc (cv_clear c1) b1 response_parsed 0 0 0 [] false)
            else Some (Some VX_INCOMPLETE, stc c1 b1 response_parsed 0 0 0 [] false)
     end).
  Proof.
    intros Hok Hf. rewrite cx_seq, clet_parsed_runs. unfold q_head. rewrite cx_if, c_parsed.
    destruct (rp_valid (cv_rsp c)) eqn:Ev; cbn [negb].
    - rewrite cx_skip. destruct c; reflexivity.
    - rewrite cx_if, ce_not, (c_rsp_parse c buf true 0 0 0 [] false Hok Hf).
      destruct (rp_parse L (cv_rsp c) buf) as [[q1 b1] r1].
      assert (Hbad : RX (RIf (ROr (ROr RMore RReqLineFail) RReqHdrFail) (RSeq RClear (RReturn VX_INVALID)) (RReturn VX_INCOMPLETE))
                        (stc (cwith_rsp c q1) b1 true 0 0 0 [] false) =
                     if nonempty b1 || sl_fail (rp_line q1) || hd_fail (rp_headers q1)
                     then Some (Some VX_INVALID, stc (cv_clear (cwith_rsp c q1)) b1 true 0 0 0 [] false)
                     else Some (Some VX_INCOMPLETE, stc (cwith_rsp c q1) b1 true 0 0 0 [] false)).
      { rewrite cx_if, !ce_or, c_more.
        destruct (nonempty b1); cbv iota beta; cbn [orb].
        - rewrite cinvalid_runs. reflexivity.
        - rewrite c_line_fail. cbn [cv_rsp cwith_rsp]. destruct (sl_fail (rp_line q1)); cbv iota beta; cbn [orb].
          + rewrite cinvalid_runs. reflexivity.
          + rewrite c_hdr_fail. cbn [cv_rsp cwith_rsp]. destruct (hd_fail (rp_headers q1)); cbv iota beta.
            * rewrite cinvalid_runs. reflexivity.
            * rewrite cx_return. reflexivity. }
      destruct r1; cbn [is_done negb].
      + rewrite cx_skip. reflexivity.
      + exact Hbad.
      + exact Hbad.
  Qed.

  (* the model's Content-Length branch (M_Receive.creceive, "if negb (hd_is_chunked ...)"), on a receiver c1 *)
  Definition ccl_model (c1 : creceiver) (b1 : str) : creceiver * str * rx :=
    let q1 := cv_rsp c1 in
    match hd_content_length (rp_headers q1) with
    | None => (cv_clear c1, b1, RX_INVALID)
    | Some n =>
        let rx_size := nlen b1 in
        let no_content_length := (0 <? rx_size) && (n =? 0) && negb (nonempty (hd_find (rp_headers q1) hf_LC_CONTENT_LENGTH)) in
        let cl := if no_content_length then cc_max_body cfg else n in
        let required := (Z.of_N cl - Z.of_N (nlen (cv_body c1)))%Z in
        if (required <? Z.of_N rx_size)%Z && no_content_length then (cv_clear c1, b1, RX_INVALID)
        else if (required <? 0)%Z && (required <? Z.of_N rx_size)%Z then (c1, b1, RX_UB)
        else
          let '(body, b2) :=
            if (required <? Z.of_N rx_size)%Z
            then (cv_body c1 ++ firstn (Z.to_nat required) b1, skipn (Z.to_nat required) b1)
            else (cv_body c1 ++ b1, []) in
          let c2 := mk_cv q1 (cv_chunk c1) body in
          if nlen body =? n then (c2, b2, RX_VALID) else (c2, b2, RX_INCOMPLETE)
    end.

  Lemma ccl_runs c1 b p : small (cc_max_body cfg) -> small (nlen (cv_body c1)) -> snd (ccl_model c1 b) <> RX_UB ->
    coutr (cafter (RX q_cl (stc c1 b p 0 0 0 [] false))) = cres (ccl_model c1 b).
  Proof.
    intros Hmax Hbody Hub. unfold ccl_model in *. cbv zeta in *.
    assert (Hbz : to_ptrdiff (nlen (cv_body c1)) = Z.of_N (nlen (cv_body c1))) by (apply to_ptrdiff_small; exact Hbody).
    assert (Hmz : to_ptrdiff (cc_max_body cfg) = Z.of_N (cc_max_body cfg)) by (apply to_ptrdiff_small; exact Hmax).
    unfold q_cl. rewrite cx_seq, clet_cl_runs. cbv iota beta. rewrite cx_seq. unfold q_cl_neg. rewrite cx_if, c_cl_lt0.
    destruct (hd_content_length (rp_headers (cv_rsp c1))) as [n|] eqn:Ecl.
    2:{ assert (Ez : cclz c1 = (-1)%Z) by (unfold cclz; rewrite Ecl; reflexivity). rewrite Ez.
        change ((-1) <? 0)%Z with true. cbv iota beta. rewrite cinvalid_runs. reflexivity. }
    pose proof (hd_content_length_small _ _ Ecl) as Hn.
    assert (Ez : cclz c1 = Z.of_N n) by (unfold cclz; rewrite Ecl; reflexivity). rewrite Ez.
    replace (Z.of_N n <? 0)%Z with false by (symmetry; apply Z.ltb_ge; lia).
    rewrite cx_skip. cbv iota beta. rewrite cx_seq, clet_rx_runs. cbv iota beta.
    (* bool no_content_length(...) *)
    rewrite cx_seq. unfold q_cl_nocl.
    set (nocl := (0 <? nlen b) && (n =? 0) && negb (nonempty (hd_find (rp_headers (cv_rsp c1)) hf_LC_CONTENT_LENGTH))) in *.
    assert (Enocl : RX (RLetNoCl (RAnd (RAnd (RZCmp RGt RZRx (RZLit 0)) (RZCmp REq RZCl (RZLit 0))) (RFindEmpty hf_LC_CONTENT_LENGTH)))
                       (stc c1 b p (Z.of_nat (length b)) (Z.of_N n) 0 [] false) =
                    Some (None, stc c1 b p (Z.of_nat (length b)) (Z.of_N n) 0 [] nocl)).
    { change (RX (RLetNoCl ?e) ?s) with (match RE e s with
              | Some (v, s1) => Some (@None rxv, mk_rst (r_store s1) (r_in s1) (r_parsed s1) (r_rx s1) (M_Recv.r_cl s1) (r_req s1) (r_next s1) v) | None => None end).
      rewrite !ce_and, c_rx_gt0.
      replace (0 <? Z.of_nat (length b))%Z with (0 <? nlen b)
        by (unfold nlen; destruct (N.ltb_spec 0 (N.of_nat (length b))); destruct (Z.ltb_spec 0 (Z.of_nat (length b))); try reflexivity; lia).
      unfold nocl. destruct (0 <? nlen b); cbv iota beta; cbn [andb]; [|reflexivity].
      rewrite c_cl_eq0.
      replace (Z.of_N n =? 0)%Z with (n =? 0) by (destruct (N.eqb_spec n 0); destruct (Z.eqb_spec (Z.of_N n) 0); try reflexivity; lia).
      destruct (n =? 0); cbv iota beta; cbn [andb]; [|reflexivity].
      rewrite c_find_empty. reflexivity. }
    rewrite Enocl. clear Enocl. cbv iota beta.
    rewrite cx_seq. unfold q_cl_assign. rewrite cx_if, c_nocl.
    set (clv := if nocl then cc_max_body cfg else n) in *.
    assert (Eassign : (if nocl then RX (RAssignCl RZMaxContent) (stc c1 b p (Z.of_nat (length b)) (Z.of_N n) 0 [] nocl)
                       else RX RSkip (stc c1 b p (Z.of_nat (length b)) (Z.of_N n) 0 [] nocl)) =
                      Some (None, stc c1 b p (Z.of_nat (length b)) (Z.of_N clv) 0 [] nocl)).
    { unfold clv. destruct nocl; [rewrite cassign_cl_runs, Hmz | rewrite cx_skip]; reflexivity. }
    rewrite Eassign. clear Eassign. cbv iota beta.
    assert (Hclv : clv <= LONG_MAX \/ small clv) by (unfold clv; destruct nocl; [right; exact Hmax | left; exact Hn]).
    set (required := (Z.of_N clv - Z.of_N (nlen (cv_body c1)))%Z) in *.
    rewrite cx_seq, clet_req_runs, Hbz. fold required.
    assert (Hin : in_ptrdiff required = true).
    { unfold in_ptrdiff, two63, required, small, LONG_MAX in *. apply andb_true_intro. split; [apply Z.leb_le | apply Z.ltb_lt]; lia. }
    rewrite Hin. cbv iota beta.
    replace (Z.of_N (nlen b)) with (Z.of_nat (length b)) in * by (unfold nlen; lia).
    rewrite cx_seq. unfold q_cl_take. rewrite cx_if, c_rx_gt_req.
    assert (Hdone : forall c3 b2 rq nx, hd_content_length (rp_headers (cv_rsp c3)) = Some n ->
              coutr (cafter (RX q_cl_done (stc c3 b2 p (Z.of_nat (length b)) (Z.of_N clv) rq nx nocl))) =
              cres (if nlen (cv_body c3) =? n then (c3, b2, RX_VALID) else (c3, b2, RX_INCOMPLETE))).
    { intros c3 b2 rq nx E3. unfold q_cl_done. rewrite cx_if, c_body_is_cl.
      assert (Ez3 : cclz c3 = Z.of_N n) by (unfold cclz; rewrite E3; reflexivity). rewrite Ez3, (to_size_t_small _ Hn).
      destruct (nlen (cv_body c3) =? n); cbv iota beta; [rewrite cx_return | rewrite cx_skip]; reflexivity. }
    destruct (required <? Z.of_nat (length b))%Z eqn:Elt; cbn [andb] in *.
    - rewrite cx_seq, cx_if, c_nocl. destruct nocl; cbv iota beta.
      + rewrite cinvalid_runs. reflexivity.
      + destruct (required <? 0)%Z eqn:Eneg; [exfalso; apply Hub; reflexivity|]. cbn [andb] in *.
        rewrite cx_skip. cbv iota beta.
        rewrite (ctake_next_runs c1 b p _ _ required [] false) by (apply Z.ltb_ge in Eneg; apply Z.ltb_lt in Elt; lia).
        cbv iota beta.
        exact (Hdone (cwith_body c1 (cv_body c1 ++ firstn (Z.to_nat required) b)) (skipn (Z.to_nat required) b) _ _ Ecl).
    - rewrite Bool.andb_false_r in *. rewrite ctake_rest_runs. cbv iota beta.
      exact (Hdone (cwith_body c1 (cv_body c1 ++ b)) [] _ _ Ecl).
  Qed.

  Definition cchunked_model (p : bool) (c1 : creceiver) (b1 : str) : creceiver * str * rx :=
    let q1 := cv_rsp c1 in
    let k0 := if rc_valid (cv_chunk c1) then rc_clear (cv_chunk c1) else cv_chunk c1 in
    let c2 := mk_cv q1 k0 (cv_body c1) in
    if p then (c2, b1, RX_VALID)
    else
      let '(k1, b2, r2) := rc_parse L k0 b1 in
      let c3 := mk_cv q1 k1 (cv_body c2) in
      let failed := match r2 with Done => false | _ => nonempty b2 || rc_failed k1 end in
      if failed then (cv_clear c3, b2, RX_INVALID)
      else if rc_valid k1 then (c3, b2, RX_CHUNK)
      else (c3, b2, RX_INCOMPLETE).

  Lemma cchunked_rest_runs p c2 b rx cl rq nx nc :
    rc_inv L (cv_chunk c2) -> hd_ok (rc_trailers (cv_chunk c2)) -> small (ck_max (rc_hdr (cv_chunk c2))) -> (length b + 2 <= fuel)%nat ->
    coutr (cafter (RX (RSeq q_ch_first (RSeq q_ch_parse q_ch_done)) (stc c2 b p rx cl rq nx nc))) =
    cres (if p then (c2, b, RX_VALID)
          else let '(k1, b2, r2) := rc_parse L (cv_chunk c2) b in
               let c3 := mk_cv (cv_rsp c2) k1 (cv_body c2) in
               let failed := match r2 with Done => false | _ => nonempty b2 || rc_failed k1 end in
               if failed then (cv_clear c3, b2, RX_INVALID)
               else if rc_valid k1 then (c3, b2, RX_CHUNK) else (c3, b2, RX_INCOMPLETE)).
  Proof.
    intros Hi Hok Hs Hf. rewrite cx_seq. unfold q_ch_first. rewrite cx_if, c_parsed.
    destruct p; cbv iota beta.
    - rewrite cx_return. reflexivity.
    - rewrite cx_skip. cbv iota beta. rewrite cx_seq. unfold q_ch_parse.
      rewrite cx_if, ce_not, (c_chunk_parse c2 b false rx cl rq nx nc Hi Hok Hs Hf).
      destruct (rc_parse L (cv_chunk c2) b) as [[k1 b2] r2]. cbv zeta. fold (cwith_chunk c2 k1).
      assert (Hdone : coutr (cafter (RX q_ch_done (stc (cwith_chunk c2 k1) b2 false rx cl rq nx nc))) =
                      cres (if rc_valid k1 then (cwith_chunk c2 k1, b2, RX_CHUNK) else (cwith_chunk c2 k1, b2, RX_INCOMPLETE))).
      { unfold q_ch_done. rewrite cx_if, c_chunk_valid. cbn [cv_chunk cwith_chunk].
        destruct (rc_valid k1); cbv iota beta; [rewrite cx_return | rewrite cx_skip]; reflexivity. }
      destruct r2; cbn [is_done negb]; cbv iota beta.
      + rewrite cx_skip. cbv iota beta. exact Hdone.
      + rewrite cx_if, ce_or, c_more. destruct (nonempty b2); cbv iota beta; cbn [orb].
        * rewrite cinvalid_runs. reflexivity.
        * rewrite c_chunk_fail. cbn [cv_chunk cwith_chunk]. destruct (rc_failed k1); cbv iota beta.
          -- rewrite cinvalid_runs. reflexivity.
          -- rewrite cx_skip. cbv iota beta. exact Hdone.
      + rewrite cx_if, ce_or, c_more. destruct (nonempty b2); cbv iota beta; cbn [orb].
        * rewrite cinvalid_runs. reflexivity.
        * rewrite c_chunk_fail. cbn [cv_chunk cwith_chunk]. destruct (rc_failed k1); cbv iota beta.
          -- rewrite cinvalid_runs. reflexivity.
          -- rewrite cx_skip. cbv iota beta. exact Hdone.
  Qed.

  Lemma cchunked_runs p c1 b rx cl rq nx nc :
    rc_inv L (cv_chunk c1) -> hd_ok (rc_trailers (cv_chunk c1)) -> small (ck_max (rc_hdr (cv_chunk c1))) -> (length b + 2 <= fuel)%nat ->
    coutr (cafter (RX q_chunked (stc c1 b p rx cl rq nx nc))) = cres (cchunked_model p c1 b).
  Proof.
    intros Hi Hok Hs Hf. destruct c1 as [q k body]. cbn [cv_chunk cv_body] in *.
    unfold q_chunked. rewrite cx_seq. unfold q_ch_clear. rewrite cx_if, c_chunk_valid. cbn [cv_chunk].
    unfold cchunked_model. cbv zeta. cbn [cv_rsp cv_chunk cv_body].
    destruct (rc_valid k) eqn:Ev; cbv iota beta.
    - rewrite cchunk_clear_runs. cbv iota beta. cbn [cwith_chunk cv_rsp cv_chunk cv_body].
      destruct (rc_clear_inv L k) as [Hic Hmc].
      apply (cchunked_rest_runs p (mk_cv q (rc_clear k) body)); cbn [cv_chunk]; try assumption; try exact fl_ok_init; try (rewrite Hmc; exact Hs).
    - rewrite cx_skip. cbv iota beta. apply (cchunked_rest_runs p (mk_cv q k body)); cbn [cv_chunk]; assumption.
  Qed.

  Lemma rp_parse_rest_len q buf q1 b1 r1 : rp_parse L q buf = (q1, b1, r1) -> (length b1 <= length buf)%nat.
  Proof.
    unfold rp_parse. intros E.
    destruct (if sl_valid (rp_line q) then (rp_line q, buf, Done) else sl_parse L (rp_line q) buf) as [[l1 bb] rr] eqn:El.
    assert (Hl : (length bb <= length buf)%nat).
    { destruct (sl_valid (rp_line q)); [inversion El; subst; lia | exact (sl_parse_len L buf _ _ _ _ El)]. }
    destruct rr; try (inversion E; subst; exact Hl).
    destruct (if hd_valid (rp_headers q) then (rp_headers q, bb, Done) else hd_parse L (rp_headers q) bb) as [[h1 b2] r2] eqn:Eh.
    assert (Hh : (length b2 <= length bb)%nat).
    { destruct (hd_valid (rp_headers q)); [inversion Eh; subst; lia | exact (proj1 (hd_parse_len L _ _ _ _ _ Eh))]. }
    destruct r2; inversion E; subst; lia.
  Qed.

  Theorem creceive_is_the_source_cfg c buf :
    snd (creceive cfg c buf) <> RX_UB ->
    hd_ok (rp_headers (cv_rsp c)) -> rc_inv L (cv_chunk c) -> hd_ok (rc_trailers (cv_chunk c)) ->
    small (ck_max (rc_hdr (cv_chunk c))) -> small (cc_max_body cfg) -> small (nlen (cv_body c)) ->
    (length buf + 2 <= fuel)%nat ->
    rrun (sl_lim L) (fl_lim L) (hd_lim L) (ck_lim L) (ccode_of L) MAXB false false cv_clear_src fuel cv_receive_src (cv_store c) buf =
    cres (creceive cfg c buf).
  Proof.
    intros Hub Hokq Hi Hokt Hs Hmax Hb Hf.
    unfold rrun, rexec. fold (stc c buf false 0 0 0 [] false).
    rewrite cv_receive_src_shape.
    assert (Ehead := chead_runs c buf Hokq Hf). cbv zeta in Ehead.
    change (RX (RSeq (RLetParsed (RNot RReqValid)) (RSeq q_head (RSeq (RIf (RNot (RQuery rp_is_chunked_src)) q_cl q_chunked) (RReturn VX_INCOMPLETE))))
               (stc c buf false 0 0 0 [] false))
      with (match RX (RSeq (RLetParsed (RNot RReqValid)) q_head) (stc c buf false 0 0 0 [] false) with
            | Some (None, s1) => RX (RSeq (RIf (RNot (RQuery rp_is_chunked_src)) q_cl q_chunked) (RReturn VX_INCOMPLETE)) s1
            | r => r end).
    rewrite Ehead. clear Ehead. unfold creceive in *. cbv zeta in *.
    assert (Hlen : forall q1 b1 r1, (if negb (rp_valid (cv_rsp c)) then rp_parse L (cv_rsp c) buf else (cv_rsp c, buf, Done)) = (q1, b1, r1) ->
                   (length b1 <= length buf)%nat).
    { intros q1 b1 r1 E. destruct (negb (rp_valid (cv_rsp c))); [|inversion E; subst; lia]. exact (rp_parse_rest_len _ _ _ _ _ E). }
    destruct (if negb (rp_valid (cv_rsp c)) then rp_parse L (cv_rsp c) buf else (cv_rsp c, buf, Done)) as [[q1 b1] r1] eqn:Eparse.
    specialize (Hlen q1 b1 r1 eq_refl).
    fold (cwith_rsp c q1) in *.
    destruct r1.
    2:{ destruct (nonempty b1 || sl_fail (rp_line q1) || hd_fail (rp_headers q1)); reflexivity. }
    2:{ destruct (nonempty b1 || sl_fail (rp_line q1) || hd_fail (rp_headers q1)); reflexivity. }
    rewrite cx_seq, cx_if, ce_not, c_is_chunked. cbn [cv_rsp cwith_rsp] in *.
    destruct (hd_is_chunked (rp_headers q1)) eqn:Ech; rewrite ?Ech in Hub; cbv iota beta; cbn [negb] in *.
    - pose proof (cchunked_runs (negb (rp_valid (cv_rsp c))) (cwith_rsp c q1) b1 0 0 0 [] false Hi Hokt Hs ltac:(lia)) as H.
      unfold coutr, cafter in H.
      destruct (RX q_chunked (stc (cwith_rsp c q1) b1 (negb (rp_valid (cv_rsp c))) 0 0 0 [] false)) as [[[x|] s1]|]; exact H.
    - pose proof (ccl_runs (cwith_rsp c q1) b1 (negb (rp_valid (cv_rsp c))) Hmax Hb Hub) as H.
      unfold coutr, cafter in H.
      destruct (RX q_cl (stc (cwith_rsp c q1) b1 (negb (rp_valid (cv_rsp c))) 0 0 0 [] false)) as [[[x|] s1]|]; exact H.
  Qed.
End WithCfg.

(* response_receiver::receive: for every receiver whose parts are in states the client connection can reach, a call that
   does not hit the model's undefined case (RX_UB: a body longer than the announced length), limits below 2^63, every
   input and every sufficient fuel, the model's creceive returns what the translated body returns. *)
Theorem creceive_is_the_source cfg c buf fuel :
  snd (creceive cfg c buf) <> RX_UB ->
  hd_ok (rp_headers (cv_rsp c)) -> rc_inv (cc_lim cfg) (cv_chunk c) -> hd_ok (rc_trailers (cv_chunk c)) ->
  small (ck_max (rc_hdr (cv_chunk c))) -> small (cc_max_body cfg) -> small (nlen (cv_body c)) ->
  (length buf + 2 <= fuel)%nat ->
  rrun (sl_lim (cc_lim cfg)) (fl_lim (cc_lim cfg)) (hd_lim (cc_lim cfg)) (ck_lim (cc_lim cfg)) (ccode_of (cc_lim cfg))
       (cc_max_body cfg) false false cv_clear_src fuel cv_receive_src (cv_store c) buf =
  (let '(c', rest, r) := creceive cfg c buf in
   match rx_of r with Some x => Some (x, cv_store c', rest) | None => None end).
Proof. intros. exact (creceive_is_the_source_cfg cfg fuel c buf H H0 H1 H2 H3 H4 H5 H6). Qed.
