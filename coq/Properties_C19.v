(* Properties_C19.v — C19: over TLS: same guarantees, orderly close_notify, server survives every close.
   On the TLS adaptor shape: whenever the library itself ends a connection (disconnect(), the close
   decision of a response, server shutdown) the TLS shutdown is started only with no write pending. *)
From Via Require Import M_Char M_Encode M_Parse M_Receive M_Server P_Server.
Local Open Scope N_scope.

From Via Require Import P_C09 P_Shapes Gen_Shapes.

Theorem C19_disconnect_waits_for_the_write : forall o w id c,
  find_conn id (w_conns w) = Some c -> c_transmitting c = true ->
  snd (comms_disconnect o w id) = [].
Proof. exact disconnect_deferred. Qed.

Theorem C19_collections_consistent_tls : forall recipe_of o evs,
  Forall conn_ok (w_conns (fst (run recipe_of o w_init evs))).
Proof. exact run_conn_ok. Qed.

(* the TLS adaptor shape of the model is the one of ssl_tcp_adaptor.hpp as it is now: the fingerprint regenerated from
   the source on this run (Gen_Shapes.v) equals the one of the file the simulation adaptor was transcribed from *)
Theorem C19_adaptor_transcription_current :
  shape_ssl_tcp_adaptor = [102; 98; 48; 100; 53; 102; 98; 101; 53; 49; 98; 98; 101; 52; 50; 54].
Proof. exact ssl_tcp_adaptor_is_the_transcribed_one. Qed.

Print Assumptions C19_disconnect_waits_for_the_write.
