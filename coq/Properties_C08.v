(* Properties_C08.v — C08: what the encoders produce, the library's own receivers accept unchanged. *)
From Via Require Import M_Char M_Encode M_Parse P_C08.
Local Open Scope N_scope.

(* every header name the library defines (all ids of header_field::id, regenerated from the source)
   is a field name the parser accepts, and its lower-case table entry is the case-folded name *)
Theorem C08_all_header_ids_parse_back :
  forallb (fun p => forallb (fun c => is_token c && (c <? 128)) (fst p) && negb (match fst p with [] => true | _ => false end)
                    && str_eqb (map tolower (fst p)) (snd p)) header_table = true.
Proof. exact all_header_ids_ok. Qed.

(* one header line produced by to_header is parsed back: name case-folded, value unchanged *)
Theorem C08_header_line_roundtrip : forall L name value rest,
  Forall (fun c => is_token c && (c <? 128) = true) name -> name <> [] ->
  Forall (fun c => is_end_of_line c = false) value -> (match value with c :: _ => isblank c = false | [] => True end) ->
  1 <= max_ws L -> nlen (to_header name value) <= max_line L ->
  next_is_blank rest = false -> rest <> [] ->
  exists f, fl_parse L fl_init (to_header name value ++ rest) = (f, rest, Done)
            /\ fl_name f = map tolower name /\ fl_value f = value.
Proof. exact header_line_roundtrip. Qed.

Print Assumptions C08_all_header_ids_parse_back.
Print Assumptions C08_header_line_roundtrip.
