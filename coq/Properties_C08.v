(* Properties_C08.v — C08: what the encoders produce, the library's own receivers accept unchanged. *)
From Via Require Import M_Char M_Encode M_Parse M_Receive P_C08 P_C02 P_C08b P_C08c P_C08d P_C08e P_C08f P_C08g P_C08h.
From Via Require Import M_Str Gen_Parse P_Str.
Local Open Scope N_scope.

(* every header name the library defines (all ids of header_field::id, regenerated from the source)
   is a field name the parser accepts, and its lower-case table entry is the case-folded name *)
Theorem C08_all_header_ids_parse_back :
  forallb (fun p => forallb (fun c => is_token c && (c <? 128)) (fst p) && negb (match fst p with [] => true | _ => false end)
                    && str_eqb (map tolower (fst p)) (snd p)) header_table = true.
Proof. exact all_header_ids_ok. Qed.

(* one header line produced by to_header is parsed back: name case-folded, value unchanged *)
Theorem C08_header_line_roundtrip : forall L name value rest,
  Forall (fun c => is_token c && (c <? 128) = true) name -> name <> [] ->
  Forall (fun c => is_end_of_line c = false) value -> (match value with c :: _ => isblank c = false | [] => True end) ->
  1 <= max_ws L -> nlen (to_header name value) <= max_line L ->
  next_is_blank rest = false -> rest <> [] ->
  exists f, fl_parse L fl_init (to_header name value ++ rest) = (f, rest, Done)
            /\ fl_name f = map tolower name /\ fl_value f = value.
Proof. exact header_line_roundtrip. Qed.

(* the request line written by tx_request is parsed back: same method, target and version, for every method of
   upper-case letters and every target without blanks and line ends, within the limits; whatever follows is left *)
Theorem C08_request_line_roundtrip : forall L m u ma mi hs rest,
  forallb isupper m = true -> m <> [] -> nlen m <= max_method L ->
  forallb uri_char u = true -> u <> [] -> nlen u <= max_uri L ->
  isdigit ma = true -> isdigit mi = true ->
  rl_parse L rl_init (request_line_string (mk_tx_request m u ma mi hs) ++ rest) =
  (mk_rl m u ma mi R_VALID 1 true false, rest, Done).
Proof. exact request_line_roundtrip. Qed.

(* numbers: what to_dec_string / to_hex_string write, from_dec_string / the chunk size parser read *)
Theorem C08_decimal_roundtrip : forall n, n <= LONG_MAX -> from_dec_string (to_dec_string n) = Some n.
Proof. exact dec_roundtrip. Qed.
Theorem C08_hexadecimal_roundtrip : forall n, n <= LONG_MAX -> size_of_hex (to_hex_string n) = n.
Proof. exact hex_roundtrip. Qed.

(* the Content-Length line the encoders add is read back as the same number *)
Theorem C08_content_length_roundtrip : forall L n rest, n <= LONG_MAX -> 1 <= max_ws L ->
  nlen (content_length_line n) <= max_line L -> next_is_blank rest = false -> rest <> [] ->
  exists f, fl_parse L fl_init (content_length_line n ++ rest) = (f, rest, Done)
            /\ fl_name f = hf_LC_CONTENT_LENGTH /\ from_dec_string (fl_value f) = Some n.
Proof. exact content_length_roundtrip. Qed.

(* the status line written by tx_response is parsed back: version, status, reason phrase (any bytes but line ends,
   not starting with a blank; may be empty) *)
Theorem C08_status_line_roundtrip : forall L st reason ma mi hs rest,
  isdigit ma = true -> isdigit mi = true -> st <= max_status L -> st <= LONG_MAX ->
  forallb reason_char reason = true -> (match reason with c :: _ => isblank c = false | [] => True end) ->
  nlen reason <= max_reason L ->
  sl_parse L sl_init (response_line_string (mk_tx_response st reason ma mi hs) ++ rest) =
  (mk_sl st reason ma mi S_VALID 1 true true false, rest, Done).
Proof. exact status_line_roundtrip. Qed.

(* a block of header lines written by to_header and closed by the empty line is parsed back: the fields of the lines in
   order, names case-folded, repeated names merged as message_headers::add merges them - for any number of lines
   within the limits (line_ok: token name, value without line ends not starting with a blank, line length;
   within: total length and number of fields) *)
Theorem C08_header_block_roundtrip : forall L hs n h rest, 1 <= max_ws L -> Forall (line_ok L) hs ->
  hd_field h = fl_init -> hd_cr h = false -> hd_fail h = false ->
  within L (hd_fields h) (hd_length h) hs -> (length hs < n)%nat ->
  exists h', hd_loop n L h (lines_bytes hs ++ [13; 10] ++ rest) = (h', rest, Done) /\
             hd_fields h' = fold_left add_line hs (hd_fields h) /\ hd_valid h' = true /\ hd_fail h' = false.
Proof. exact header_block_roundtrip. Qed.

(* the whole head of a request: request line, header lines, empty line *)
Theorem C08_request_head_roundtrip : forall L m u ma mi hs rest,
  forallb isupper m = true -> m <> [] -> nlen m <= max_method L ->
  forallb uri_char u = true -> u <> [] -> nlen u <= max_uri L ->
  isdigit ma = true -> isdigit mi = true ->
  1 <= max_ws L -> Forall (line_ok L) hs -> within L [] 0 hs ->
  exists h', rq_parse L rq_init (request_line_string (mk_tx_request m u ma mi (lines_bytes hs)) ++ lines_bytes hs ++ [13; 10] ++ rest)
             = (mk_rq (mk_rl m u ma mi R_VALID 1 true false) h' true, rest, Done) /\
             hd_fields h' = fold_left add_line hs [] /\ hd_valid h' = true.
Proof. exact request_head_roundtrip. Qed.

(* non-vacuity: two lines with the same name and a third one satisfy the premises; the repeated name is merged *)
Example C08_example_header_block :
  let L := mk_limits 8190 8 100 65534 1024 8 65534 65534 false in
  let hs := [([72;111;115;116], [104]); ([88;45;65], [49]); ([120;45;97], [50])] in
  Forall (line_ok L) hs /\ within L [] 0 hs /\
  fold_left add_line hs [] = [([104;111;115;116], [104]); ([120;45;97], [49;44;50])].
Proof.
  split; [|split; [|vm_compute; reflexivity]].
  - repeat constructor; cbn; try discriminate; try lia.
  - cbn [within]. vm_compute. repeat split; intros; discriminate.
Qed.

(* a whole request as tx_request::message writes it - request line, the caller's header lines, the Content-Length line the
   encoder adds, the empty line - followed by its body: received back as one valid request with the same method,
   target, version, fields and body, whatever follows it on the connection *)
Theorem C08_request_message_roundtrip : forall cfg m u ma mi hs body rest,
  let L := c_lim cfg in
  let n := nlen body in
  let hs' := hs ++ [cl_line n] in
  let F := fold_left add_line hs' [] in
  forallb isupper m = true -> m <> [] -> nlen m <= max_method L ->
  forallb uri_char u = true -> u <> [] -> nlen u <= max_uri L ->
  isdigit ma = true -> isdigit mi = true -> 1 <= max_ws L ->
  Forall (line_ok L) hs' -> within L [] 0 hs' ->
  request_adds_content_length (mk_tx_request m u ma mi (lines_bytes hs)) = true ->
  (ma = 49 -> mi = 49 -> exists hv, fields_find hf_LC_HOST F = Some hv /\ hv <> []) ->
  fields_find hf_LC_TRANSFER_ENCODING F = None ->
  fields_find hf_LC_CONTENT_LENGTH F = Some (to_dec_string n) ->
  str_eqb m method_HEAD = false -> str_eqb m method_TRACE = false ->
  n <= c_max_content cfg -> n <= LONG_MAX ->
  exists v1, receive cfg (rv_init cfg) (request_message (mk_tx_request m u ma mi (lines_bytes hs)) n ++ body ++ rest) = (v1, rest, RX_VALID) /\
             rq_line (rv_req v1) = mk_rl m u ma mi R_VALID 1 true false /\
             hd_fields (rq_headers (rv_req v1)) = F /\ rv_body v1 = body.
Proof. exact request_message_roundtrip. Qed.

(* non-vacuity: POST /a with a Host and one more header line and a 3-byte body meets every premise *)
Example C08_example_request_message :
  let cfg := mk_rcfg (mk_limits 8190 8 100 65534 1024 8 65534 65534 false) 1048576 1048576 true true false in
  let hs := [([72;111;115;116], [104]); ([88;45;65], [49])] in
  let body := [120;121;122] in
  let hs' := hs ++ [cl_line (nlen body)] in
  Forall (line_ok (c_lim cfg)) hs' /\ within (c_lim cfg) [] 0 hs' /\
  request_adds_content_length (mk_tx_request [80;79;83;84] [47;97] 49 49 (lines_bytes hs)) = true /\
  fields_find hf_LC_HOST (fold_left add_line hs' []) = Some [104] /\
  fields_find hf_LC_TRANSFER_ENCODING (fold_left add_line hs' []) = None /\
  fields_find hf_LC_CONTENT_LENGTH (fold_left add_line hs' []) = Some (to_dec_string (nlen body)) /\
  snd (receive cfg (rv_init cfg) (request_message (mk_tx_request [80;79;83;84] [47;97] 49 49 (lines_bytes hs)) 3 ++ body ++ [71])) = RX_VALID.
Proof.
  split; [|split; [|vm_compute; repeat split]].
  - repeat constructor; cbn; try discriminate; try lia.
  - cbn [within]. vm_compute. repeat split; intros; discriminate.
Qed.

(* the same for a whole response as tx_response::message writes it, received by the client's response_receiver *)
Theorem C08_response_message_roundtrip : forall cfg st reason ma mi hs body rest,
  let L := cc_lim cfg in
  let n := nlen body in
  let hs' := hs ++ [cl_line n] in
  let F := fold_left add_line hs' [] in
  isdigit ma = true -> isdigit mi = true -> st <= max_status L -> st <= LONG_MAX ->
  forallb reason_char reason = true -> (match reason with c :: _ => isblank c = false | [] => True end) ->
  nlen reason <= max_reason L -> 1 <= max_ws L ->
  Forall (line_ok L) hs' -> within L [] 0 hs' ->
  response_adds_content_length (mk_tx_response st reason ma mi (lines_bytes hs)) = true ->
  fields_find hf_LC_TRANSFER_ENCODING F = None ->
  fields_find hf_LC_CONTENT_LENGTH F = Some (to_dec_string n) ->
  n <= LONG_MAX ->
  exists v1, creceive cfg (cv_init cfg) (response_message (mk_tx_response st reason ma mi (lines_bytes hs)) n ++ body ++ rest) = (v1, rest, RX_VALID) /\
             rp_line (cv_rsp v1) = mk_sl st reason ma mi S_VALID 1 true true false /\
             hd_fields (rp_headers (cv_rsp v1)) = F /\ cv_body v1 = body.
Proof. exact response_message_roundtrip. Qed.

Example C08_example_response_message :
  let cfg := mk_ccfg (mk_limits 0 0 65534 9223372036854775807 65534 254 65534 65534 false) 1048576 1048576 in
  let hs := [([83;101;114;118;101;114], [118])] in
  let body := [111;107] in
  let hs' := hs ++ [cl_line (nlen body)] in
  Forall (line_ok (cc_lim cfg)) hs' /\ within (cc_lim cfg) [] 0 hs' /\
  response_adds_content_length (mk_tx_response 200 [79;75] 49 49 (lines_bytes hs)) = true /\
  fields_find hf_LC_TRANSFER_ENCODING (fold_left add_line hs' []) = None /\
  fields_find hf_LC_CONTENT_LENGTH (fold_left add_line hs' []) = Some (to_dec_string (nlen body)) /\
  snd (creceive cfg (cv_init cfg) (response_message (mk_tx_response 200 [79;75] 49 49 (lines_bytes hs)) 2 ++ body)) = RX_VALID.
Proof.
  split; [|split; [|vm_compute; repeat split]].
  - repeat constructor; cbn; try discriminate; try lia.
  - cbn [within]. vm_compute. repeat split; intros; discriminate.
Qed.

(* chunk framing: the size line chunk_header writes (hexadecimal size, optional "; extension") is read back *)
Theorem C08_chunk_header_roundtrip : forall L mx size ext rest,
  size <= mx -> size <= LONG_MAX -> 1 <= max_ws L ->
  forallb ext_char ext = true -> (match ext with c :: _ => isblank c = false | [] => True end) ->
  nlen (chunk_header_string size ext) <= max_line L ->
  exists k1, ck_parse L (ck_init mx) (chunk_header_string size ext ++ rest) = (k1, rest, Done) /\
             ck_size k1 = size /\ ck_ext k1 = ext /\ ck_hex k1 = to_hex_string size /\ ck_valid k1 = true /\ ck_max k1 = mx /\ ck_fail k1 = false.
Proof. exact chunk_header_roundtrip. Qed.

(* a whole chunk - size line, data, CR LF - for any data (all 256 byte values) within the chunk limit *)
Theorem C08_chunk_roundtrip : forall L mx data ext rest,
  data <> [] -> nlen data <= mx -> nlen data <= LONG_MAX -> 1 <= max_ws L ->
  forallb ext_char ext = true -> (match ext with c :: _ => isblank c = false | [] => True end) ->
  nlen (chunk_header_string (nlen data) ext) <= max_line L ->
  exists k, rc_parse L (rc_init mx) (chunk_header_string (nlen data) ext ++ data ++ [13; 10] ++ rest) = (k, rest, Done) /\
            rc_data k = data /\ ck_size (rc_hdr k) = nlen data /\ ck_ext (rc_hdr k) = ext /\ rc_valid k = true /\ rc_fail k = false.
Proof. exact chunk_roundtrip. Qed.

(* the last chunk with its trailer lines *)
Theorem C08_last_chunk_roundtrip : forall L mx ext ts rest,
  1 <= max_ws L -> forallb ext_char ext = true -> (match ext with c :: _ => isblank c = false | [] => True end) ->
  nlen (chunk_header_string 0 ext) <= max_line L ->
  Forall (line_ok L) ts -> within L [] 0 ts ->
  exists k, rc_parse L (rc_init mx) (last_chunk_string ext (lines_bytes ts) ++ rest) = (k, rest, Done) /\
            ck_size (rc_hdr k) = 0 /\ ck_ext (rc_hdr k) = ext /\ rc_data k = [] /\
            hd_fields (rc_trailers k) = fold_left add_line ts [] /\ rc_valid k = true.
Proof. exact last_chunk_roundtrip. Qed.

Example C08_example_chunk :
  let L := mk_limits 8190 8 100 65534 1024 8 65534 65534 false in
  exists k, rc_parse L (rc_init 1048576) (chunk_header_string 3 [120;61;49] ++ [0;255;13] ++ [13;10] ++ [48]) = (k, [48], Done) /\ rc_data k = [0;255;13].
Proof. eexists. vm_compute. split; reflexivity. Qed.

Example C08_example_request_line :
  rl_parse (mk_limits 8190 8 100 65534 1024 8 65534 65534 false) rl_init
    (request_line_string (mk_tx_request [80;85;84] [47;97;63;98;61;49] 49 49 []) ++ [72]) =
  (mk_rl [80;85;84] [47;97;63;98;61;49] 49 49 R_VALID 1 true false, [72], Done).
Proof. vm_compute. reflexivity. Qed.

Print Assumptions C08_all_header_ids_parse_back.
Print Assumptions C08_header_line_roundtrip.
Print Assumptions C08_request_line_roundtrip.
Print Assumptions C08_decimal_roundtrip.
Print Assumptions C08_hexadecimal_roundtrip.
Print Assumptions C08_content_length_roundtrip.
Print Assumptions C08_status_line_roundtrip.
Print Assumptions C08_header_block_roundtrip.
Print Assumptions C08_request_head_roundtrip.
Print Assumptions C08_request_message_roundtrip.
Print Assumptions C08_response_message_roundtrip.
Print Assumptions C08_chunk_header_roundtrip.
Print Assumptions C08_chunk_roundtrip.
Print Assumptions C08_last_chunk_roundtrip.

(* what the encoders produce is what the translated tx_response::message / tx_request::message return (see Properties_C04.v) *)
Theorem C08_response_message_is_the_source : forall r n,
  srun (mk_senv (response_line_string r) (rs_headers r) (rs_status r) n) tx_response_message_src = Some (response_message r n).
Proof. exact response_message_is_the_source. Qed.
Theorem C08_request_message_is_the_source : forall r n,
  srun (mk_senv (request_line_string r) (tq_headers r) 0 n) tx_request_message_src = Some (request_message r n).
Proof. exact request_message_is_the_source. Qed.
Print Assumptions C08_response_message_is_the_source.
Print Assumptions C08_request_message_is_the_source.

(* the start lines and chunk headers the round trips speak about - response_line_string, request_line_string,
   chunk_header_string, last_chunk_string - are what the translated to_string() members of response_line, request_line,
   chunk_header and last_chunk return (Gen_Parse.v, terms of M_Str.v), for EVERY line, size, extension and trailer string;
   and the whole head is the translated to_string() fed to the translated message(). *)
Theorem C08_request_line_string_is_the_source : forall r,
  xrun (mk_xenv [tq_method r; tq_uri r] (tq_major r) (tq_minor r) 0) request_line_to_string_src = Some (request_line_string r).
Proof. exact request_line_string_is_the_source. Qed.
Theorem C08_response_line_string_is_the_source : forall r,
  xrun (mk_xenv [rs_reason r] (rs_major r) (rs_minor r) (rs_status r)) response_line_to_string_src = Some (response_line_string r).
Proof. exact response_line_string_is_the_source. Qed.
Theorem C08_chunk_header_string_is_the_source : forall size ext,
  xrun (mk_xenv [to_hex_string size; ext] 0 0 0) chunk_header_to_string_src = Some (chunk_header_string size ext).
Proof. exact chunk_header_string_is_the_source. Qed.
Theorem C08_last_chunk_string_is_the_source : forall ext trailers,
  xrun (mk_xenv [ext; trailers] 0 0 0) last_chunk_to_string_src = Some (last_chunk_string ext trailers).
Proof. exact last_chunk_string_is_the_source. Qed.
Theorem C08_response_head_is_the_source : forall r n,
  exists line, xrun (mk_xenv [rs_reason r] (rs_major r) (rs_minor r) (rs_status r)) response_line_to_string_src = Some line
            /\ srun (mk_senv line (rs_headers r) (rs_status r) n) tx_response_message_src = Some (response_message r n).
Proof. exact response_head_is_the_source. Qed.
Theorem C08_request_head_is_the_source : forall r n,
  exists line, xrun (mk_xenv [tq_method r; tq_uri r] (tq_major r) (tq_minor r) 0) request_line_to_string_src = Some line
            /\ srun (mk_senv line (tq_headers r) 0 n) tx_request_message_src = Some (request_message r n).
Proof. exact request_head_is_the_source. Qed.
Example C08_to_string_examples :
  xrun (mk_xenv [[71; 69; 84]; [47]] 49 49 0) request_line_to_string_src = Some [71; 69; 84; 32; 47; 32; 72; 84; 84; 80; 47; 49; 46; 49; 13; 10]
  /\ xrun (mk_xenv [[79; 75]] 49 49 200) response_line_to_string_src = Some [72; 84; 84; 80; 47; 49; 46; 49; 32; 50; 48; 48; 32; 79; 75; 13; 10]
  /\ xrun (mk_xenv [to_hex_string 26; [97]] 0 0 0) chunk_header_to_string_src = Some [49; 97; 59; 32; 97; 13; 10]
  /\ xrun (mk_xenv [[]; [88; 58; 32; 49; 13; 10]] 0 0 0) last_chunk_to_string_src = Some [48; 13; 10; 88; 58; 32; 49; 13; 10; 13; 10].
Proof. vm_compute. repeat split. Qed.
Print Assumptions C08_request_line_string_is_the_source.
Print Assumptions C08_response_line_string_is_the_source.
Print Assumptions C08_chunk_header_string_is_the_source.
Print Assumptions C08_last_chunk_string_is_the_source.
Print Assumptions C08_response_head_is_the_source.
Print Assumptions C08_request_head_is_the_source.

(* the header lines of the round trips: header_field::to_header(name, value), content_length(size) and chunked_encoding()
   as translated from clang's AST return the model's to_header / content_length_line / chunked_encoding_line *)
Theorem C08_to_header_is_the_source : forall name value,
  xrun (mk_xenv [name; value] 0 0 0) hf_to_header_src = Some (to_header name value).
Proof. exact to_header_is_the_source. Qed.
Theorem C08_content_length_line_is_the_source : forall n,
  xrun (mk_xenv [] 0 0 n) hf_content_length_src = Some (content_length_line n).
Proof. exact content_length_line_is_the_source. Qed.
Theorem C08_chunked_encoding_line_is_the_source :
  xrun (mk_xenv [] 0 0 0) hf_chunked_encoding_src = Some chunked_encoding_line.
Proof. exact chunked_encoding_line_is_the_source. Qed.
Print Assumptions C08_to_header_is_the_source.
Print Assumptions C08_content_length_line_is_the_source.
Print Assumptions C08_chunked_encoding_line_is_the_source.
