(* P_Recv.v — the hand-written model of request_receiver::receive (M_Receive.receive) computes, for every receiver in a
   state the connection can reach, every input and every sufficient fuel, what the body of the C++ function computes -
   the body as translated from clang's AST on this run (Gen_Parse.rv_receive_src, rv_clear_src), under the meaning of
   M_Recv.v, whose calls run the translated functions of the layers below. *)
From Via Require Import M_Char M_Parse M_Receive M_Imp M_Loop M_Hdr M_Msg M_Chunk M_Query M_Recv Gen_Parse.
From Via Require Import P_Imp P_Loop P_Frag P_Hdr P_Msg P_Term P_C05 P_C06 P_C06b P_Chunk P_Query.
From Coq Require Import List NArith ZArith Bool Lia.
Import ListNotations.
Local Open Scope N_scope.

Definition rv_store (v : receiver) : rstore :=
  mk_rs (rq_store (rv_req v)) (rc_store (rv_chunk v)) (rv_body v) [rv_code v; b2n (rv_continue_sent v); b2n (rv_is_head v)].
Definition rcode_of (L : limits) : rcode :=
  mk_rcode (rl_code_of L) (hd_code_of L) rq_parse_src rq_clear_src (kc_of L) (rc_src L) rc_clear_src rc_fail_src.
Definition rx_of (r : rx) : option rxv :=
  match r with
  | RX_INVALID => Some VX_INVALID | RX_EXPECT_CONTINUE => Some VX_EXPECT_CONTINUE | RX_INCOMPLETE => Some VX_INCOMPLETE
  | RX_VALID => Some VX_VALID | RX_CHUNK => Some VX_CHUNK | RX_UB => None
  end.

(* the pieces of the body *)
Definition p_head : rstmt := (RIf RParsed (RIf (RNot RReqParse) (RIf (ROr (ROr RMore RReqLineFail) RReqHdrFail) (RSeq (RIf (RLineStateIs 15%nat) (RSetCode code_NOT_IMPLEMENTED) (RIf (RLineStateIs 16%nat) (RSetCode code_REQUEST_URI_TOO_LONG) (RSetCode code_BAD_REQUEST))) (RSeq RClear (RReturn VX_INVALID))) (RReturn VX_INCOMPLETE)) RSkip) RSkip).
Definition p_host : rstmt := RIf (RQuery rq_missing_host_header_src) (RSeq (RSetCode code_BAD_REQUEST) (RReturn VX_INVALID)) RSkip.
Definition p_cl : rstmt := (RSeq (RLetRx RZDistance) (RSeq (RLetCl RZContentLength) (RSeq (RIf (RQuery rq_is_trace_src) (RIf (RZCmp REq RZCl (RZLit 0)) (RSetCode code_METHOD_NOT_ALLOWED) (RSeq (RSetCode code_BAD_REQUEST) (RSeq RClear (RReturn VX_INVALID)))) RSkip) (RSeq (RIf (RZCmp RLt RZCl (RZLit 0)) (RSeq (RSetCode code_BAD_REQUEST) (RSeq RClear (RReturn VX_INVALID))) (RIf (RZCmp RGt RZCl (RZLit 0)) (RIf (RZCmp RGt RZCl RZMaxContent) (RSeq (RSetCode code_PAYLOAD_TOO_LARGE) (RSeq RClear (RReturn VX_INVALID))) RSkip) (RIf (RAnd (RZCmp RGt RZRx (RZLit 0)) (RFindEmpty hf_LC_CONTENT_LENGTH)) (RSeq (RSetCode code_LENGTH_REQUIRED) (RSeq RClear (RReturn VX_INVALID))) RSkip))) (RSeq (RLetReq (RZSub RZCl RZBodySize)) (RSeq (RIf (RZCmp RGt RZRx RZReq) (RSeq RLetNext (RSeq RInsertToNext RJumpNext)) (RIf RMore (RSeq RInsertRest RJumpEnd) RSkip)) (RSeq (RIf RBodyIsContentLength (RSeq (RSetFlag 2%nat (RQuery rq_is_head_src)) (RSeq (RIf (RAnd (RFlag 2%nat) RTranslateHead) (RSetMethod method_GET) RSkip) (RReturn VX_VALID))) RSkip) (RIf (RAnd (RAnd RParsed (RQuery rq_expect_continue_src)) (RNot (RFlag 1%nat))) (RSeq (RSetCode code_CONTINUE) (RReturn VX_EXPECT_CONTINUE)) RSkip)))))))).
Definition p_chunked : rstmt := (RSeq (RIf RChunkValid RChunkClear RSkip) (RSeq (RIf RParsed (RIf (RAnd (RQuery rq_expect_continue_src) (RNot (RFlag 1%nat))) (RSeq (RSetCode code_CONTINUE) (RReturn VX_EXPECT_CONTINUE)) (RIf (RNot RConcat) (RReturn VX_VALID) RSkip)) RSkip) (RSeq (RIf (RNot RChunkParse) (RIf (ROr RMore RChunkFail) (RSeq (RSetCode code_BAD_REQUEST) (RSeq RClear (RReturn VX_INVALID))) RSkip) RSkip) (RIf RChunkValid (RIf RConcat (RIf RChunkIsLast (RReturn VX_VALID) (RIf RSumOverLimit (RSeq (RSetCode code_PAYLOAD_TOO_LARGE) (RSeq RClear (RReturn VX_INVALID))) RAppendChunk)) (RReturn VX_CHUNK)) RSkip)))).

Definition p_cl_trace : rstmt := (RIf (RQuery rq_is_trace_src) (RIf (RZCmp REq RZCl (RZLit 0)) (RSetCode code_METHOD_NOT_ALLOWED) (RSeq (RSetCode code_BAD_REQUEST) (RSeq RClear (RReturn VX_INVALID)))) RSkip).
Definition p_cl_checks : rstmt := (RIf (RZCmp RLt RZCl (RZLit 0)) (RSeq (RSetCode code_BAD_REQUEST) (RSeq RClear (RReturn VX_INVALID))) (RIf (RZCmp RGt RZCl (RZLit 0)) (RIf (RZCmp RGt RZCl RZMaxContent) (RSeq (RSetCode code_PAYLOAD_TOO_LARGE) (RSeq RClear (RReturn VX_INVALID))) RSkip) (RIf (RAnd (RZCmp RGt RZRx (RZLit 0)) (RFindEmpty hf_LC_CONTENT_LENGTH)) (RSeq (RSetCode code_LENGTH_REQUIRED) (RSeq RClear (RReturn VX_INVALID))) RSkip))).
Definition p_cl_take : rstmt := (RIf (RZCmp RGt RZRx RZReq) (RSeq RLetNext (RSeq RInsertToNext RJumpNext)) (RIf RMore (RSeq RInsertRest RJumpEnd) RSkip)).
Definition p_cl_done : rstmt := (RIf RBodyIsContentLength (RSeq (RSetFlag 2%nat (RQuery rq_is_head_src)) (RSeq (RIf (RAnd (RFlag 2%nat) RTranslateHead) (RSetMethod method_GET) RSkip) (RReturn VX_VALID))) RSkip).
Definition p_cl_expect : rstmt := (RIf (RAnd (RAnd RParsed (RQuery rq_expect_continue_src)) (RNot (RFlag 1%nat))) (RSeq (RSetCode code_CONTINUE) (RReturn VX_EXPECT_CONTINUE)) RSkip).
Definition p_ch_clear : rstmt := (RIf RChunkValid RChunkClear RSkip).
Definition p_ch_first : rstmt := (RIf RParsed (RIf (RAnd (RQuery rq_expect_continue_src) (RNot (RFlag 1%nat))) (RSeq (RSetCode code_CONTINUE) (RReturn VX_EXPECT_CONTINUE)) (RIf (RNot RConcat) (RReturn VX_VALID) RSkip)) RSkip).
Definition p_ch_parse : rstmt := (RIf (RNot RChunkParse) (RIf (ROr RMore RChunkFail) (RSeq (RSetCode code_BAD_REQUEST) (RSeq RClear (RReturn VX_INVALID))) RSkip) RSkip).
Definition p_ch_done : rstmt := (RIf RChunkValid (RIf RConcat (RIf RChunkIsLast (RReturn VX_VALID) (RIf RSumOverLimit (RSeq (RSetCode code_PAYLOAD_TOO_LARGE) (RSeq RClear (RReturn VX_INVALID))) RAppendChunk)) (RReturn VX_CHUNK)) RSkip).
Lemma p_cl_shape : p_cl = (RSeq (RLetRx RZDistance) (RSeq (RLetCl RZContentLength) (RSeq p_cl_trace (RSeq p_cl_checks (RSeq (RLetReq (RZSub RZCl RZBodySize)) (RSeq p_cl_take (RSeq p_cl_done p_cl_expect))))))).
Proof. reflexivity. Qed.
Lemma p_chunked_shape : p_chunked = (RSeq p_ch_clear (RSeq p_ch_first (RSeq p_ch_parse p_ch_done))).
Proof. reflexivity. Qed.

Lemma rv_receive_src_shape :
  rv_receive_src = RSeq (RLetParsed (RNot RReqValid)) (RSeq p_head (RSeq p_host (RSeq (RIf (RNot (RQuery rq_is_chunked_src)) p_cl p_chunked) (RReturn VX_INCOMPLETE)))).
Proof. reflexivity. Qed.

(* a header block is looked at only through its field map *)
Lemma hd_find_fields h name : hd_find (mk_hd (hd_fields h) fl_init false false false 0) name = hd_find h name.
Proof. reflexivity. Qed.
Lemma hq_eval_fields q h : hq_eval q (mk_hd (hd_fields h) fl_init false false false 0) = hq_eval q h.
Proof. destruct q; reflexivity. Qed.
Lemma rq_eval_fields line h e : rq_eval line (mk_hd (hd_fields h) fl_init false false false 0) e = rq_eval line h e.
Proof. induction e; cbn [rq_eval]; rewrite ?IHe, ?IHe1, ?IHe2, ?hq_eval_fields; reflexivity. Qed.

Section WithCfg.
  Variable cfg : rcfg.
  Variable fuel : nat.
  Notation L := (c_lim cfg).
  (* the configuration members, under names of their own so that a case split on the model's side leaves the
     interpreter's parameters alone *)
  Definition MAXC : N := c_max_content cfg.
  Definition TH : bool := c_translate_head cfg.
  Definition CC : bool := c_concat cfg.
  Notation RC := (rexec_clear (rl_lim L) (fl_lim L) (hd_lim L) (ck_lim L) (rcode_of L) MAXC TH CC rv_clear_src fuel).
  Notation RX := (rexec_gen (rl_lim L) (fl_lim L) (hd_lim L) (ck_lim L) (rcode_of L) MAXC TH CC fuel RC).
  Notation RE := (reval (rl_lim L) (fl_lim L) (hd_lim L) (ck_lim L) (rcode_of L) MAXC TH CC fuel).
  Notation RZ := (rzeval MAXC).

  Definition stv (v : receiver) (inp : str) (p : bool) (rx cl rq : Z) (nx : str) : rstate := mk_rst (rv_store v) inp p rx cl rq nx false.

  (* ---- control structure, one step at a time ---- *)
  Lemma rx_seq a b s : RX (RSeq a b) s = match RX a s with Some (None, s1) => RX b s1 | r => r end.
  Proof. reflexivity. Qed.
  Lemma rx_if c t e s : RX (RIf c t e) s = match RE c s with Some (v, s1) => if v then RX t s1 else RX e s1 | None => None end.
  Proof. reflexivity. Qed.
  Lemma rx_skip s : RX RSkip s = Some (None, s).
  Proof. reflexivity. Qed.
  Lemma rx_return x s : RX (RReturn x) s = Some (Some x, s).
  Proof. reflexivity. Qed.
  Lemma re_not a s : RE (RNot a) s = match RE a s with Some (v, s1) => Some (negb v, s1) | None => None end.
  Proof. reflexivity. Qed.
  Lemma re_and a b s : RE (RAnd a b) s = match RE a s with Some (true, s1) => RE b s1 | r => r end.
  Proof. reflexivity. Qed.
  Lemma re_or a b s : RE (ROr a b) s = match RE a s with Some (false, s1) => RE b s1 | r => r end.
  Proof. reflexivity. Qed.

  (* ---- the atoms, on a state that is the store of a model receiver ---- *)
  Lemma e_parsed v i p rx cl rq nx : RE RParsed (stv v i p rx cl rq nx) = Some (p, stv v i p rx cl rq nx).
  Proof. reflexivity. Qed.
  Lemma e_more v i p rx cl rq nx : RE RMore (stv v i p rx cl rq nx) = Some (nonempty i, stv v i p rx cl rq nx).
  Proof. reflexivity. Qed.
  Lemma e_req_valid v i p rx cl rq nx : RE RReqValid (stv v i p rx cl rq nx) = Some (rq_valid (rv_req v), stv v i p rx cl rq nx).
  Proof. destruct v as [q k body code cs ih]; destruct q as [l h vl]; destruct vl; reflexivity. Qed.
  Lemma e_line_fail v i p rx cl rq nx : RE RReqLineFail (stv v i p rx cl rq nx) = Some (rl_fail (rq_line (rv_req v)), stv v i p rx cl rq nx).
  Proof.
    destruct v as [q k body code cs ih]; destruct q as [l h vl]. unfold stv, rv_store, rq_store.
    cbn [reval r_store req_line rs_req ms_line rv_req rq_line xc_line rcode_of lc_fail rl_code_of].
    destruct l as [m u ma mi st ws vv f]; destruct f; reflexivity.
  Qed.
  Lemma hd_fail_eval h inp :
    heval (fl_lim L) (hd_lim L) (fl_code_of L) fuel hd_fail_src (mk_hst (hd_store h) inp) = Some (hd_fail h, mk_hst (hd_store h) inp).
  Proof. destruct h as [flds f v fa cr len]; destruct fa; reflexivity. Qed.
  Lemma e_hdr_fail v i p rx cl rq nx : RE RReqHdrFail (stv v i p rx cl rq nx) = Some (hd_fail (rq_headers (rv_req v)), stv v i p rx cl rq nx).
  Proof.
    destruct v as [q k body code cs ih]; destruct q as [l h vl]. unfold stv, rv_store, rq_store.
    cbn [reval r_store r_in req_headers rs_req ms_hdr rv_req rq_headers xc_hdr rcode_of hc_fail hc_field hd_code_of].
    rewrite hd_fail_eval. reflexivity.
  Qed.
  Lemma e_state n v i p rx cl rq nx :
    RE (RLineStateIs n) (stv v i p rx cl rq nx) = Some (Nat.eqb n (rl_st_index (rl_state (rq_line (rv_req v)))), stv v i p rx cl rq nx).
  Proof. destruct v as [q k body code cs ih]; destruct q as [l h vl]; reflexivity. Qed.
  Lemma e_query e v i p rx cl rq nx : RE (RQuery e) (stv v i p rx cl rq nx) = Some (rq_ev (rv_req v) e, stv v i p rx cl rq nx).
  Proof.
    destruct v as [q k body code cs ih]; destruct q as [l h vl]. unfold stv, rv_store, rq_store, rq_ev.
    cbn [reval r_store]. unfold req_fields, req_headers, req_line.
    cbn [rs_req ms_line ms_hdr rv_req rq_line rq_headers hd_store hs_fields].
    rewrite rq_eval_fields. reflexivity.
  Qed.
  Lemma e_find_empty name v i p rx cl rq nx :
    RE (RFindEmpty name) (stv v i p rx cl rq nx) = Some (negb (nonempty (hd_find (rq_headers (rv_req v)) name)), stv v i p rx cl rq nx).
  Proof.
    destruct v as [q k body code cs ih]; destruct q as [l h vl]. unfold stv, rv_store, rq_store.
    cbn [reval r_store]. unfold req_fields, req_headers.
    cbn [rs_req ms_hdr rv_req rq_headers hd_store hs_fields].
    rewrite hd_find_fields. destruct (hd_find h name); reflexivity.
  Qed.
  Lemma e_flag1 v i p rx cl rq nx : RE (RFlag 1) (stv v i p rx cl rq nx) = Some (rv_continue_sent v, stv v i p rx cl rq nx).
  Proof. destruct v as [q k body code cs ih]; destruct cs; reflexivity. Qed.
  Lemma e_flag2 v i p rx cl rq nx : RE (RFlag 2) (stv v i p rx cl rq nx) = Some (rv_is_head v, stv v i p rx cl rq nx).
  Proof. destruct v as [q k body code cs ih]; destruct ih; reflexivity. Qed.
  Lemma e_translate v i p rx cl rq nx : RE RTranslateHead (stv v i p rx cl rq nx) = Some (c_translate_head cfg, stv v i p rx cl rq nx).
  Proof. reflexivity. Qed.
  Lemma e_concat v i p rx cl rq nx : RE RConcat (stv v i p rx cl rq nx) = Some (c_concat cfg, stv v i p rx cl rq nx).
  Proof. reflexivity. Qed.

  Definition with_req (v : receiver) (q : rx_request) : receiver :=
    mk_rv q (rv_chunk v) (rv_body v) (rv_code v) (rv_continue_sent v) (rv_is_head v).
  Definition with_chunk (v : receiver) (k : rx_chunk) : receiver :=
    mk_rv (rv_req v) k (rv_body v) (rv_code v) (rv_continue_sent v) (rv_is_head v).
  Definition with_body (v : receiver) (b : str) : receiver :=
    mk_rv (rv_req v) (rv_chunk v) b (rv_code v) (rv_continue_sent v) (rv_is_head v).

  Lemma e_req_parse v i p rx cl rq nx : hd_ok (rq_headers (rv_req v)) -> (length i + 2 <= fuel)%nat ->
    RE RReqParse (stv v i p rx cl rq nx) =
    (let '(q1, b1, r1) := rq_parse L (rv_req v) i in Some (is_done r1, stv (with_req v q1) b1 p rx cl rq nx)).
  Proof.
    intros Hok Hf. destruct v as [q k body code cs ih]. unfold stv, rv_store, with_req.
    cbn [reval r_store r_in rs_req rs_chunk rs_body rs_nums rv_req rv_chunk rv_body rv_code rv_continue_sent rv_is_head xc_line xc_hdr xc_req_parse rcode_of] in *.
    rewrite (rq_parse_is_the_source L q i fuel Hok Hf). destruct (rq_parse L q i) as [[q1 b1] r1]. reflexivity.
  Qed.

  (* ---- statements ---- *)
  Lemma set_code_runs c v i p rx cl rq nx : RX (RSetCode c) (stv v i p rx cl rq nx) = Some (None, stv (rv_set_code v c) i p rx cl rq nx).
  Proof. destruct v; reflexivity. Qed.

  Lemma clear_runs v i p rx cl rq nx : RC (stv v i p rx cl rq nx) = Some (None, stv (rv_clear v) i p rx cl rq nx).
  Proof.
    destruct v as [q k body code cs ih]. unfold rexec_clear, rv_clear_src, stv, rv_store, rcode_of.
    cbn [rexec_gen reval r_store r_in r_parsed r_rx M_Recv.r_cl r_req r_next rs_req rs_chunk rs_body rs_nums rwith rwith_in rset set_nth b2n
         xc_line xc_hdr xc_req_clear xc_size_line xc_chunk_clear rv_req rv_chunk rv_body rv_code rv_continue_sent rv_is_head].
    rewrite rq_clear_is_the_source. cbn [m_store r_store r_in rs_req rs_chunk rs_body rs_nums rwith].
    rewrite rc_clear_is_the_source. reflexivity.
  Qed.

  Lemma invalid_runs v c i p rx cl rq nx :
    RX (RSeq (RSetCode c) (RSeq RClear (RReturn VX_INVALID))) (stv v i p rx cl rq nx) =
    Some (Some VX_INVALID, stv (rv_clear (rv_set_code v c)) i p rx cl rq nx).
  Proof.
    rewrite rx_seq, set_code_runs, rx_seq.
    change (RX RClear (stv (rv_set_code v c) i p rx cl rq nx)) with (RC (stv (rv_set_code v c) i p rx cl rq nx)).
    rewrite clear_runs. reflexivity.
  Qed.

  Definition head_code (q : rx_request) : N :=
    match rl_state (rq_line q) with
    | R_ERROR_METHOD_LENGTH => code_NOT_IMPLEMENTED
    | R_ERROR_URI_LENGTH => code_REQUEST_URI_TOO_LONG
    | _ => code_BAD_REQUEST
    end.

  Lemma let_parsed_runs v i p rx cl rq nx :
    RX (RLetParsed (RNot RReqValid)) (stv v i p rx cl rq nx) = Some (None, stv v i (negb (rq_valid (rv_req v))) rx cl rq nx).
  Proof.
    change (RX (RLetParsed (RNot RReqValid)) (stv v i p rx cl rq nx))
      with (match RE (RNot RReqValid) (stv v i p rx cl rq nx) with
            | Some (b, s1) => Some (@None rxv, mk_rst (r_store s1) (r_in s1) b (r_rx s1) (M_Recv.r_cl s1) (r_req s1) (r_next s1) (r_nocl s1)) | None => None end).
    rewrite re_not, e_req_valid. reflexivity.
  Qed.

  Ltac classify v q1 :=
    rewrite rx_seq, rx_if, e_state; change (rv_req (with_req v q1)) with q1; unfold head_code;
    let Est := fresh "Est" in
    destruct (rl_state (rq_line q1)) eqn:Est; cbn [rl_st_index Nat.eqb];
    repeat (rewrite ?rx_if, ?e_state; change (rv_req (with_req v q1)) with q1; rewrite ?Est; cbn [rl_st_index Nat.eqb]);
    rewrite set_code_runs; cbv iota beta; rewrite rx_seq;
    (match goal with |- context [RX RClear ?s] => change (RX RClear s) with (RC s) end);
    rewrite clear_runs; cbv iota beta; rewrite rx_return; reflexivity.

  (* the head of the request: parse it unless it is valid, classify a failure *)
  Lemma head_runs v buf : hd_ok (rq_headers (rv_req v)) -> (length buf + 2 <= fuel)%nat ->
    RX (RSeq (RLetParsed (RNot RReqValid)) p_head) (stv v buf false 0 0 0 []) =
    (let request_parsed := negb (rq_valid (rv_req v)) in
     let '(q1, b1, r1) := if request_parsed then rq_parse L (rv_req v) buf else (rv_req v, buf, Done) in
     let v1 := with_req v q1 in
     match r1 with
     | Done => Some (None, stv v1 b1 request_parsed 0 0 0 [])
     | _ => if nonempty b1 || rl_fail (rq_line q1) || hd_fail (rq_headers q1)
            then Some (Some VX_INVALID, stv (rv_clear (rv_set_code v1 (head_code q1))) b1 request_parsed 0 0 0 [])
            else Some (Some VX_INCOMPLETE, stv v1 b1 request_parsed 0 0 0 [])
     end).
  Proof.
    intros Hok Hf. rewrite rx_seq, let_parsed_runs. unfold p_head. rewrite rx_if, e_parsed.
    destruct (rq_valid (rv_req v)) eqn:Ev; cbn [negb].
    - rewrite rx_skip. destruct v; reflexivity.
    - rewrite rx_if, re_not, (e_req_parse v buf true 0 0 0 [] Hok Hf).
      destruct (rq_parse L (rv_req v) buf) as [[q1 b1] r1].
      assert (Hbad : RX (RIf (ROr (ROr RMore RReqLineFail) RReqHdrFail)
                            (RSeq (RIf (RLineStateIs 15) (RSetCode code_NOT_IMPLEMENTED) (RIf (RLineStateIs 16) (RSetCode code_REQUEST_URI_TOO_LONG) (RSetCode code_BAD_REQUEST)))
                                  (RSeq RClear (RReturn VX_INVALID)))
                            (RReturn VX_INCOMPLETE)) (stv (with_req v q1) b1 true 0 0 0 []) =
                     if nonempty b1 || rl_fail (rq_line q1) || hd_fail (rq_headers q1)
                     then Some (Some VX_INVALID, stv (rv_clear (rv_set_code (with_req v q1) (head_code q1))) b1 true 0 0 0 [])
                     else Some (Some VX_INCOMPLETE, stv (with_req v q1) b1 true 0 0 0 [])).
      { rewrite rx_if, !re_or, e_more.
        destruct (nonempty b1) eqn:En; cbv iota beta; cbn [orb].
        - classify v q1.
        - rewrite e_line_fail. cbn [rv_req with_req]. destruct (rl_fail (rq_line q1)) eqn:Elf; cbv iota beta; cbn [orb].
          + classify v q1.
          + rewrite e_hdr_fail. cbn [rv_req with_req]. destruct (hd_fail (rq_headers q1)) eqn:Ehf; cbv iota beta.
            * classify v q1.
            * rewrite rx_return. reflexivity. }
      destruct r1; cbn [is_done negb].
      + rewrite rx_skip. reflexivity.
      + exact Hbad.
      + exact Hbad.
  Qed.

  (* ---- the Content-Length branch ---- *)
  Definition clz (v : receiver) : Z :=
    match hd_content_length (rq_headers (rv_req v)) with Some n => Z.of_N n | None => (-1)%Z end.

  Lemma content_length_of_store v : content_length_of (rv_store v) = clz v.
  Proof. destruct v as [q k body code cs ih]; destruct q as [l h vl]. reflexivity. Qed.

  Lemma let_rx_runs v i p rx cl rq nx :
    RX (RLetRx RZDistance) (stv v i p rx cl rq nx) = Some (None, stv v i p (Z.of_nat (length i)) cl rq nx).
  Proof. reflexivity. Qed.
  Lemma let_cl_runs v i p rx cl rq nx :
    RX (RLetCl RZContentLength) (stv v i p rx cl rq nx) = Some (None, stv v i p rx (clz v) rq nx).
  Proof. unfold stv. cbn [rexec_gen rzeval r_store]. rewrite content_length_of_store. reflexivity. Qed.
  Lemma e_cl_eq0 v i p rx cl rq nx : RE (RZCmp REq RZCl (RZLit 0)) (stv v i p rx cl rq nx) = Some ((cl =? 0)%Z, stv v i p rx cl rq nx).
  Proof. reflexivity. Qed.
  Lemma e_cl_lt0 v i p rx cl rq nx : RE (RZCmp RLt RZCl (RZLit 0)) (stv v i p rx cl rq nx) = Some ((cl <? 0)%Z, stv v i p rx cl rq nx).
  Proof. reflexivity. Qed.
  Lemma e_cl_gt0 v i p rx cl rq nx : RE (RZCmp RGt RZCl (RZLit 0)) (stv v i p rx cl rq nx) = Some ((0 <? cl)%Z, stv v i p rx cl rq nx).
  Proof. reflexivity. Qed.
  Lemma e_cl_gt_max v i p rx cl rq nx :
    RE (RZCmp RGt RZCl RZMaxContent) (stv v i p rx cl rq nx) = Some ((to_ptrdiff (c_max_content cfg) <? cl)%Z, stv v i p rx cl rq nx).
  Proof. reflexivity. Qed.
  Lemma e_rx_gt0 v i p rx cl rq nx : RE (RZCmp RGt RZRx (RZLit 0)) (stv v i p rx cl rq nx) = Some ((0 <? rx)%Z, stv v i p rx cl rq nx).
  Proof. reflexivity. Qed.
  Lemma e_rx_gt_req v i p rx cl rq nx : RE (RZCmp RGt RZRx RZReq) (stv v i p rx cl rq nx) = Some ((rq <? rx)%Z, stv v i p rx cl rq nx).
  Proof. reflexivity. Qed.
  Lemma e_body_is_cl v i p rx cl rq nx :
    RE RBodyIsContentLength (stv v i p rx cl rq nx) = Some (nlen (rv_body v) =? to_size_t (clz v), stv v i p rx cl rq nx).
  Proof. unfold stv. cbn [reval r_store]. rewrite content_length_of_store. destruct v; reflexivity. Qed.

  Lemma hd_content_length_small h n : hd_content_length h = Some n -> n <= LONG_MAX.
  Proof.
    unfold hd_content_length. destruct (hd_find h hf_LC_CONTENT_LENGTH) as [|c t] eqn:E.
    - intros H; inversion H. unfold LONG_MAX. lia.
    - unfold from_dec_string. destruct (forallb isdigit (c :: t)); [|discriminate].
      destruct (dec_value (c :: t) <=? LONG_MAX) eqn:El; [|discriminate]. intros H; inversion H; subst. apply N.leb_le. exact El.
  Qed.

  Definition outr (r : option (option rxv * rstate)) : option (rxv * rstore * str) :=
    match r with Some (Some x, s) => Some (x, r_store s, r_in s) | _ => None end.
  Definition res (x : receiver * str * rx) : option (rxv * rstore * str) :=
    let '(v', rest, r) := x in match rx_of r with Some c => Some (c, rv_store v', rest) | None => None end.

  (* the model's Content-Length branch once the length is known to be n and the checks have passed
     (M_Receive.receive_cl, from "let required" on) *)
  Definition cl_body_model (request_parsed : bool) (v2 : receiver) (n : N) (b1 : str) : receiver * str * rx :=
    let q1 := rv_req v2 in
    let rx_size := nlen b1 in
    let required := (Z.of_N n - Z.of_N (nlen (rv_body v2)))%Z in
    if (required <? 0)%Z && (required <? Z.of_N rx_size)%Z then (v2, b1, RX_UB)
    else
      let '(body, b2) :=
        if (required <? Z.of_N rx_size)%Z
        then (rv_body v2 ++ firstn (Z.to_nat required) b1, skipn (Z.to_nat required) b1)
        else (rv_body v2 ++ b1, []) in
      let v3 := mk_rv (rv_req v2) (rv_chunk v2) body (rv_code v2) (rv_continue_sent v2) (rv_is_head v2) in
      if nlen body =? n then
        let ih := rq_is_head q1 in
        let q2 := if ih && c_translate_head cfg
                  then mk_rq (rl_set_method (rq_line q1) method_GET) (rq_headers q1) (rq_valid q1)
                  else q1 in
        (mk_rv q2 (rv_chunk v3) body (rv_code v3) (rv_continue_sent v3) ih, b2, RX_VALID)
      else if request_parsed && rq_expect_continue q1 && negb (rv_continue_sent v3)
      then (rv_set_code v3 code_CONTINUE, b2, RX_EXPECT_CONTINUE)
      else (v3, b2, RX_INCOMPLETE).

  (* ... and from the checks on (from "0 <? n") *)
  Definition cl_tail_model (request_parsed : bool) (v2 : receiver) (n : N) (b1 : str) : receiver * str * rx :=
    if (0 <? n) && (c_max_content cfg <? n) then invalid v2 code_PAYLOAD_TOO_LARGE b1
    else if (n =? 0) && (0 <? nlen b1) && negb (nonempty (hd_find (rq_headers (rv_req v2)) hf_LC_CONTENT_LENGTH))
    then invalid v2 code_LENGTH_REQUIRED b1
    else cl_body_model request_parsed v2 n b1.

  Lemma receive_cl_unfold p v b :
    receive_cl cfg p v b =
    (let q1 := rv_req v in
     let cl := hd_content_length (rq_headers q1) in
     let trace_bad := rq_is_trace q1 && negb (match cl with Some 0 => true | _ => false end) in
     let v2 := if rq_is_trace q1 && negb trace_bad then rv_set_code v code_METHOD_NOT_ALLOWED else v in
     if trace_bad then invalid v code_BAD_REQUEST b
     else match cl with None => invalid v2 code_BAD_REQUEST b | Some n => cl_tail_model p v2 n b end).
  Proof.
    unfold receive_cl, cl_tail_model, cl_body_model. cbv zeta.
    destruct (rq_is_trace (rv_req v)); destruct (hd_content_length (rq_headers (rv_req v))) as [[|n]|]; reflexivity.
  Qed.

  Lemma let_req_runs v i p rx cl rq nx :
    RX (RLetReq (RZSub RZCl RZBodySize)) (stv v i p rx cl rq nx) =
    (if in_ptrdiff (cl - to_ptrdiff (nlen (rv_body v))) then Some (None, stv v i p rx cl (cl - to_ptrdiff (nlen (rv_body v)))%Z nx) else None).
  Proof. destruct v as [q k body code cs ih]. unfold stv, rv_store. cbn [rexec_gen rzeval r_store rs_body r_cl rv_body M_Recv.r_cl].
         destruct (in_ptrdiff (cl - to_ptrdiff (nlen body))); reflexivity. Qed.

  Lemma take_next_runs v i p rx cl rq nx : (0 <= rq)%Z -> (rq <= Z.of_nat (length i))%Z ->
    RX (RSeq RLetNext (RSeq RInsertToNext RJumpNext)) (stv v i p rx cl rq nx) =
    Some (None, stv (with_body v (rv_body v ++ firstn (Z.to_nat rq) i)) (skipn (Z.to_nat rq) i) p rx cl rq (skipn (Z.to_nat rq) i)).
  Proof.
    intros H0 H1. destruct v as [q k body code cs ih]. unfold stv, rv_store, with_body.
    cbn [rexec_gen r_store r_in r_parsed r_rx M_Recv.r_cl r_req r_next rs_req rs_chunk rs_body rs_nums rwith rwith_in rv_req rv_chunk rv_body rv_code rv_continue_sent rv_is_head].
    assert (E : ((0 <=? rq) && (rq <=? Z.of_nat (length i)))%Z = true) by (apply andb_true_intro; split; apply Z.leb_le; assumption).
    rewrite E. cbn [r_store r_in r_parsed r_rx M_Recv.r_cl r_req r_next rs_req rs_chunk rs_body rs_nums].
    rewrite (firstn_skipn_len i (Z.to_nat rq)) by lia. reflexivity.
  Qed.

  Lemma take_rest_runs v i p rx cl rq nx :
    RX (RIf RMore (RSeq RInsertRest RJumpEnd) RSkip) (stv v i p rx cl rq nx) =
    Some (None, stv (with_body v (rv_body v ++ i)) [] p rx cl rq nx).
  Proof.
    destruct v as [q k body code cs ih]. unfold stv, rv_store, with_body. destruct i as [|c t].
    - cbn [rexec_gen reval r_in]. rewrite app_nil_r. reflexivity.
    - reflexivity.
  Qed.

  Lemma set_is_head_runs e v i p rx cl rq nx :
    RX (RSetFlag 2 (RQuery e)) (stv v i p rx cl rq nx) =
    Some (None, stv (mk_rv (rv_req v) (rv_chunk v) (rv_body v) (rv_code v) (rv_continue_sent v) (rq_ev (rv_req v) e)) i p rx cl rq nx).
  Proof.
    change (RX (RSetFlag 2 (RQuery e)) (stv v i p rx cl rq nx))
      with (match RE (RQuery e) (stv v i p rx cl rq nx) with
            | Some (b, s1) => Some (@None rxv, rwith s1 (rset (r_store s1) 2 (b2n b))) | None => None end).
    rewrite e_query. destruct v; reflexivity.
  Qed.

  Lemma set_method_runs m v i p rx cl rq nx :
    RX (RSetMethod m) (stv v i p rx cl rq nx) =
    Some (None, stv (with_req v (mk_rq (rl_set_method (rq_line (rv_req v)) m) (rq_headers (rv_req v)) (rq_valid (rv_req v)))) i p rx cl rq nx).
  Proof. destruct v as [q k body code cs ih]; destruct q as [l h vl]; destruct l; reflexivity. Qed.

  Lemma to_size_t_small n : n <= LONG_MAX -> to_size_t (Z.of_N n) = n.
  Proof. unfold to_size_t, two64, LONG_MAX. intros H. rewrite Z.mod_small by lia. lia. Qed.

  Definition after (r : option (option rxv * rstate)) : option (option rxv * rstate) :=
    match r with Some (None, s1) => RX (RReturn VX_INCOMPLETE) s1 | r => r end.

  Lemma clz_some v n : hd_content_length (rq_headers (rv_req v)) = Some n -> clz v = Z.of_N n.
  Proof. unfold clz. intros ->. reflexivity. Qed.

  Lemma translate_runs w i p rx cl rq nx :
    RX (RIf (RAnd (RFlag 2) RTranslateHead) (RSetMethod method_GET) RSkip) (stv w i p rx cl rq nx) =
    Some (None, stv (if rv_is_head w && c_translate_head cfg
                     then with_req w (mk_rq (rl_set_method (rq_line (rv_req w)) method_GET) (rq_headers (rv_req w)) (rq_valid (rv_req w)))
                     else w) i p rx cl rq nx).
  Proof.
    destruct w as [q k body code cs ih]; destruct q as [l h vl]; destruct l as [m u ma mi st ws vv f].
    unfold stv, rv_store, rq_store, rl_store, with_req.
    cbn [rexec_gen reval r_store r_in r_parsed r_rx M_Recv.r_cl r_req r_next rs_req rs_chunk rs_body rs_nums rnum nth rwith
         rv_req rv_chunk rv_body rv_code rv_continue_sent rv_is_head rq_line rq_headers rq_valid b2n].
    unfold TH. destruct ih; cbn [N.eqb negb andb]; [destruct (c_translate_head cfg)|]; reflexivity.
  Qed.

  Lemma cl_finish w3 n b2 p rx rq nx : hd_content_length (rq_headers (rv_req w3)) = Some n -> n <= LONG_MAX ->
    outr (after (RX (RSeq p_cl_done p_cl_expect) (stv w3 b2 p rx (Z.of_N n) rq nx))) =
    res (let q1 := rv_req w3 in
         if nlen (rv_body w3) =? n then
           let ih := rq_is_head q1 in
           let q2 := if ih && c_translate_head cfg
                     then mk_rq (rl_set_method (rq_line q1) method_GET) (rq_headers q1) (rq_valid q1)
                     else q1 in
           (mk_rv q2 (rv_chunk w3) (rv_body w3) (rv_code w3) (rv_continue_sent w3) ih, b2, RX_VALID)
         else if p && rq_expect_continue q1 && negb (rv_continue_sent w3)
         then (rv_set_code w3 code_CONTINUE, b2, RX_EXPECT_CONTINUE)
         else (w3, b2, RX_INCOMPLETE)).
  Proof.
    intros Ecl Hn. cbv zeta. rewrite rx_seq. unfold p_cl_done. rewrite rx_if, e_body_is_cl, (clz_some _ _ Ecl), (to_size_t_small _ Hn).
    destruct (nlen (rv_body w3) =? n) eqn:Edone.
    - (* the body is complete *)
      rewrite rx_seq, set_is_head_runs, rq_is_head_is_the_source. cbv iota beta.
      rewrite rx_seq, translate_runs. cbv iota beta. rewrite rx_return. cbn [rv_is_head rv_req].
      destruct (rq_is_head (rv_req w3)); cbn [andb]; [destruct (c_translate_head cfg)|]; destruct w3; reflexivity.
    - rewrite rx_skip. cbv iota beta. unfold p_cl_expect. rewrite rx_if, !re_and, e_parsed.
      destruct p; cbv iota beta; cbn [andb].
      + rewrite e_query, rq_expect_continue_is_the_source.
        destruct (rq_expect_continue (rv_req w3)); cbv iota beta; cbn [andb].
        * rewrite re_not, e_flag1. destruct (rv_continue_sent w3); cbv iota beta; cbn [negb].
          -- rewrite rx_skip. reflexivity.
          -- rewrite rx_seq, set_code_runs. cbv iota beta. rewrite rx_return. reflexivity.
        * rewrite rx_skip. reflexivity.
      + rewrite rx_skip. reflexivity.
  Qed.

  Notation BODY := (RSeq (RLetReq (RZSub RZCl RZBodySize)) (RSeq p_cl_take (RSeq p_cl_done p_cl_expect))).

  Lemma cl_body_runs p w n b :
    hd_content_length (rq_headers (rv_req w)) = Some n -> small (nlen (rv_body w)) ->
    snd (cl_body_model p w n b) <> RX_UB ->
    outr (after (RX BODY (stv w b p (Z.of_nat (length b)) (Z.of_N n) 0 []))) = res (cl_body_model p w n b).
  Proof.
    intros Ecl Hbody Hub. pose proof (hd_content_length_small _ _ Ecl) as Hn.
    assert (Hbz : to_ptrdiff (nlen (rv_body w)) = Z.of_N (nlen (rv_body w))) by (apply to_ptrdiff_small; exact Hbody).
    unfold cl_body_model in *. cbv zeta in *.
    set (required := (Z.of_N n - Z.of_N (nlen (rv_body w)))%Z) in *.
    rewrite rx_seq, let_req_runs, Hbz. fold required.
    assert (Hin : in_ptrdiff required = true).
    { unfold in_ptrdiff, two63, required, small, LONG_MAX in *. apply andb_true_intro. split; [apply Z.leb_le | apply Z.ltb_lt]; lia. }
    rewrite Hin. cbv iota beta.
    replace (Z.of_N (nlen b)) with (Z.of_nat (length b)) in * by (unfold nlen; lia).
    rewrite rx_seq. unfold p_cl_take. rewrite rx_if, e_rx_gt_req.
    destruct (required <? Z.of_nat (length b))%Z eqn:Elt.
    - (* more than the body: take what is required *)
      destruct (required <? 0)%Z eqn:Eneg; [exfalso; apply Hub; reflexivity|]. cbn [andb] in *.
      rewrite (take_next_runs w b p _ _ required []) by (apply Z.ltb_ge in Eneg; apply Z.ltb_lt in Elt; lia).
      cbv iota beta. exact (cl_finish (with_body w (rv_body w ++ firstn (Z.to_nat required) b)) n (skipn (Z.to_nat required) b) p _ _ _ Ecl Hn).
    - rewrite Bool.andb_false_r in *. rewrite take_rest_runs. cbv iota beta.
      exact (cl_finish (with_body w (rv_body w ++ b)) n [] p _ _ _ Ecl Hn).
  Qed.

  Lemma cl_tail_runs p w n b :
    hd_content_length (rq_headers (rv_req w)) = Some n -> small (c_max_content cfg) -> small (nlen (rv_body w)) ->
    snd (cl_tail_model p w n b) <> RX_UB ->
    outr (after (RX (RSeq p_cl_checks (RSeq (RLetReq (RZSub RZCl RZBodySize)) (RSeq p_cl_take (RSeq p_cl_done p_cl_expect))))
                    (stv w b p (Z.of_nat (length b)) (Z.of_N n) 0 []))) =
    res (cl_tail_model p w n b).
  Proof.
    intros Ecl Hmax Hbody Hub. pose proof (hd_content_length_small _ _ Ecl) as Hn.
    assert (Hmaxz : to_ptrdiff (c_max_content cfg) = Z.of_N (c_max_content cfg)) by (apply to_ptrdiff_small; exact Hmax).
    assert (Hbz : to_ptrdiff (nlen (rv_body w)) = Z.of_N (nlen (rv_body w))) by (apply to_ptrdiff_small; exact Hbody).
    unfold cl_tail_model in *.
    rewrite rx_seq. unfold p_cl_checks. rewrite rx_if, e_cl_lt0.
    replace (Z.of_N n <? 0)%Z with false by (symmetry; apply Z.ltb_ge; lia).
    rewrite rx_if, e_cl_gt0.
    replace (0 <? Z.of_N n)%Z with (0 <? n) by (destruct (N.ltb_spec 0 n); destruct (Z.ltb_spec 0 (Z.of_N n)); try reflexivity; lia).
    destruct (0 <? n) eqn:Epos; cbn [andb].
    - (* a length is announced *)
      rewrite rx_if, e_cl_gt_max, Hmaxz.
      replace (Z.of_N (c_max_content cfg) <? Z.of_N n)%Z with (c_max_content cfg <? n)
        by (destruct (N.ltb_spec (c_max_content cfg) n); destruct (Z.ltb_spec (Z.of_N (c_max_content cfg)) (Z.of_N n)); try reflexivity; lia).
      destruct (c_max_content cfg <? n) eqn:Eover.
      + rewrite invalid_runs. reflexivity.
      + rewrite rx_skip. cbv iota beta.
        replace (n =? 0) with false in * by (symmetry; apply N.eqb_neq; apply N.ltb_lt in Epos; lia). cbn [andb] in *.
        apply cl_body_runs; assumption.
    - rewrite rx_if, re_and, e_rx_gt0.
      replace (0 <? Z.of_nat (length b))%Z with (0 <? nlen b)
        by (unfold nlen; destruct (N.ltb_spec 0 (N.of_nat (length b))); destruct (Z.ltb_spec 0 (Z.of_nat (length b))); try reflexivity; lia).
      assert (En0 : (n =? 0) = true) by (apply N.eqb_eq; apply N.ltb_ge in Epos; lia). rewrite En0 in *. cbn [andb] in *.
      destruct (0 <? nlen b) eqn:Erx; cbn [andb] in *.
      + rewrite e_find_empty.
        destruct (negb (nonempty (hd_find (rq_headers (rv_req w)) hf_LC_CONTENT_LENGTH))) eqn:Ene.
        * rewrite invalid_runs. reflexivity.
        * rewrite rx_skip. cbv iota beta. apply cl_body_runs; assumption.
      + rewrite rx_skip. cbv iota beta. apply cl_body_runs; assumption.
  Qed.

  Notation TAIL := (RSeq p_cl_checks BODY).

  Lemma cl_runs p v b : small (c_max_content cfg) -> small (nlen (rv_body v)) -> snd (receive_cl cfg p v b) <> RX_UB ->
    outr (after (RX p_cl (stv v b p 0 0 0 []))) = res (receive_cl cfg p v b).
  Proof.
    intros Hmax Hbody Hub. rewrite receive_cl_unfold in *. cbv zeta in *.
    rewrite p_cl_shape, rx_seq, let_rx_runs. cbv iota beta. rewrite rx_seq, let_cl_runs. cbv iota beta.
    rewrite rx_seq. unfold p_cl_trace. rewrite rx_if, e_query, rq_is_trace_is_the_source.
    destruct (hd_content_length (rq_headers (rv_req v))) as [n|] eqn:Ecl.
    - rewrite (clz_some _ _ Ecl). destruct (rq_is_trace (rv_req v)) eqn:Et; cbn [andb negb] in *.
      + rewrite rx_if, e_cl_eq0. destruct n as [|pn].
        * (* TRACE without a body: 405 and on *)
          change (Z.of_N 0 =? 0)%Z with true. cbv iota beta. cbn [negb andb] in *. rewrite set_code_runs. cbv iota beta.
          exact (cl_tail_runs p (rv_set_code v code_METHOD_NOT_ALLOWED) 0 b Ecl Hmax Hbody Hub).
        * change (Z.of_N (N.pos pn) =? 0)%Z with false. cbv iota beta. cbn [negb andb] in *. rewrite invalid_runs. reflexivity.
      + rewrite rx_skip. cbv iota beta. exact (cl_tail_runs p v n b Ecl Hmax Hbody Hub).
    - assert (Ez : clz v = (-1)%Z) by (unfold clz; rewrite Ecl; reflexivity). rewrite Ez.
      destruct (rq_is_trace (rv_req v)) eqn:Et; cbn [andb negb] in *.
      + rewrite rx_if, e_cl_eq0. change ((-1) =? 0)%Z with false. cbv iota beta. rewrite invalid_runs. reflexivity.
      + rewrite rx_skip. cbv iota beta. rewrite rx_seq. unfold p_cl_checks. rewrite rx_if, e_cl_lt0.
        change ((-1) <? 0)%Z with true. cbv iota beta. rewrite invalid_runs. reflexivity.
  Qed.

  (* ---- the chunked branch ---- *)
  Lemma e_chunk_valid v i p rx cl rq nx : RE RChunkValid (stv v i p rx cl rq nx) = Some (rc_valid (rv_chunk v), stv v i p rx cl rq nx).
  Proof. destruct v as [q k body code cs ih]; destruct k as [h data tr vl cr fa]; destruct vl; reflexivity. Qed.

  Lemma chunk_clear_runs v i p rx cl rq nx :
    RX RChunkClear (stv v i p rx cl rq nx) = Some (None, stv (with_chunk v (rc_clear (rv_chunk v))) i p rx cl rq nx).
  Proof.
    destruct v as [q k body code cs ih]. unfold stv, rv_store, with_chunk, rcode_of.
    cbn [rexec_gen r_store r_in r_parsed r_rx M_Recv.r_cl r_req r_next rs_req rs_chunk rs_body rs_nums rwith
         xc_size_line xc_hdr xc_chunk_clear rv_req rv_chunk rv_body rv_code rv_continue_sent rv_is_head].
    rewrite rc_clear_is_the_source. reflexivity.
  Qed.

  Lemma e_chunk_is_last v i p rx cl rq nx : RE RChunkIsLast (stv v i p rx cl rq nx) = Some (rc_is_last (rv_chunk v), stv v i p rx cl rq nx).
  Proof.
    destruct v as [q k body code cs ih]; destruct k as [h data tr vl cr fa]. unfold stv, rv_store, rc_store, rcode_of, rc_is_last.
    cbn [reval r_store rs_chunk cs_hdr xc_size_line kc_is_last kc_of rv_chunk rc_hdr]. rewrite ck_is_last_eval. reflexivity.
  Qed.

  Lemma e_chunk_fail v i p rx cl rq nx : RE RChunkFail (stv v i p rx cl rq nx) = Some (rc_failed (rv_chunk v), stv v i p rx cl rq nx).
  Proof.
    destruct v as [q k body code cs ih]; destruct k as [h data tr vl cr fa]. unfold stv, rv_store, rc_store, rcode_of, rc_failed, rc_fail_src.
    cbn [reval ceval r_store r_in rs_chunk c_store c_in cs_hdr cs_trailers cs_nums cnum nth xc_size_line xc_hdr xc_chunk_fail kc_fail kc_of hc_fail hc_field hd_code_of
         rv_chunk rc_hdr rc_trailers rc_fail].
    destruct fa; cbn [b2n N.eqb negb orb]; [reflexivity|].
    replace (fst (beval (ck_lim L) 0 ck_fail_src (ck_store h))) with (ck_fail h)
      by (destruct h as [mx sz len ws hx ex s sr vv f]; destruct f; reflexivity).
    destruct (ck_fail h); [reflexivity|]. cbn [c_store c_in cs_trailers]. rewrite hd_fail_eval. reflexivity.
  Qed.

  Lemma e_sum v i p rx cl rq nx : small (nlen (rv_body v)) -> small (nlen (rc_data (rv_chunk v))) ->
    RE RSumOverLimit (stv v i p rx cl rq nx) = Some (c_max_content cfg <? nlen (rv_body v) + nlen (rc_data (rv_chunk v)), stv v i p rx cl rq nx).
  Proof.
    intros Hb Hd. destruct v as [q k body code cs ih]; destruct k as [h data tr vl cr fa]. unfold stv, rv_store, rc_store, MAXC.
    cbn [reval r_store rs_body rs_chunk cs_data rv_body rv_chunk rc_data] in *.
    rewrite N.mod_small by (unfold small, two64 in *; lia). reflexivity.
  Qed.

  Lemma e_chunk_parse v i p rx cl rq nx :
    rc_inv L (rv_chunk v) -> hd_ok (rc_trailers (rv_chunk v)) -> small (ck_max (rc_hdr (rv_chunk v))) -> (length i + 2 <= fuel)%nat ->
    RE RChunkParse (stv v i p rx cl rq nx) =
    (let '(k1, b2, r2) := rc_parse L (rv_chunk v) i in Some (is_done r2, stv (with_chunk v k1) b2 p rx cl rq nx)).
  Proof.
    intros Hi Hok Hs Hf. destruct v as [q k body code cs ih]. unfold stv, rv_store, with_chunk, rcode_of.
    cbn [reval r_store r_in rs_req rs_chunk rs_body rs_nums rv_req rv_chunk rv_body rv_code rv_continue_sent rv_is_head xc_size_line xc_hdr xc_chunk_parse] in *.
    rewrite (rc_parse_is_the_source L k i fuel Hi Hok Hs Hf). destruct (rc_parse L k i) as [[k1 b2] r2]. reflexivity.
  Qed.

  Lemma append_chunk_runs v i p rx cl rq nx :
    RX RAppendChunk (stv v i p rx cl rq nx) = Some (None, stv (with_body v (rv_body v ++ rc_data (rv_chunk v))) i p rx cl rq nx).
  Proof. destruct v as [q k body code cs ih]; destruct k; reflexivity. Qed.

  (* from the second statement of the branch on: the chunk to be parsed is (rv_chunk v) *)
  Definition chunked_rest_model (request_parsed : bool) (v2 : receiver) (b1 : str) : receiver * str * rx :=
    let q1 := rv_req v2 in
    if request_parsed && rq_expect_continue q1 && negb (rv_continue_sent v2)
    then (rv_set_code v2 code_CONTINUE, b1, RX_EXPECT_CONTINUE)
    else if request_parsed && negb (c_concat cfg) then (v2, b1, RX_VALID)
    else
      let '(k1, b2, r2) := rc_parse L (rv_chunk v2) b1 in
      let v3 := mk_rv (rv_req v2) k1 (rv_body v2) (rv_code v2) (rv_continue_sent v2) (rv_is_head v2) in
      let failed := match r2 with Done => false | _ => nonempty b2 || rc_failed k1 end in
      if failed then invalid v3 code_BAD_REQUEST b2
      else if rc_valid k1 then
        if c_concat cfg then
          if rc_is_last k1 then (v3, b2, RX_VALID)
          else if c_max_content cfg <? nlen (rv_body v3) + nlen (rc_data k1)
          then invalid v3 code_PAYLOAD_TOO_LARGE b2
          else (mk_rv (rv_req v3) k1 (rv_body v3 ++ rc_data k1) (rv_code v3) (rv_continue_sent v3) (rv_is_head v3),
                b2, RX_INCOMPLETE)
        else (v3, b2, RX_CHUNK)
      else (v3, b2, RX_INCOMPLETE).

  Lemma chunked_rest_runs p v2 b rx cl rq nx :
    rc_inv L (rv_chunk v2) -> hd_ok (rc_trailers (rv_chunk v2)) -> small (ck_max (rc_hdr (rv_chunk v2))) -> small (nlen (rv_body v2)) ->
    (length b + 2 <= fuel)%nat ->
    outr (after (RX (RSeq p_ch_first (RSeq p_ch_parse p_ch_done)) (stv v2 b p rx cl rq nx))) = res (chunked_rest_model p v2 b).
  Proof.
    intros Hi Hok Hs Hb Hf. unfold chunked_rest_model. cbv zeta.
    rewrite rx_seq. unfold p_ch_first. rewrite rx_if, e_parsed.
    assert (Hparse :
      outr (after (RX (RSeq p_ch_parse p_ch_done) (stv v2 b p rx cl rq nx))) =
      res (let '(k1, b2, r2) := rc_parse L (rv_chunk v2) b in
           let v3 := mk_rv (rv_req v2) k1 (rv_body v2) (rv_code v2) (rv_continue_sent v2) (rv_is_head v2) in
           let failed := match r2 with Done => false | _ => nonempty b2 || rc_failed k1 end in
           if failed then invalid v3 code_BAD_REQUEST b2
           else if rc_valid k1 then
             if c_concat cfg then
               if rc_is_last k1 then (v3, b2, RX_VALID)
               else if c_max_content cfg <? nlen (rv_body v3) + nlen (rc_data k1)
               then invalid v3 code_PAYLOAD_TOO_LARGE b2
               else (mk_rv (rv_req v3) k1 (rv_body v3 ++ rc_data k1) (rv_code v3) (rv_continue_sent v3) (rv_is_head v3), b2, RX_INCOMPLETE)
             else (v3, b2, RX_CHUNK)
           else (v3, b2, RX_INCOMPLETE))).
    { rewrite rx_seq. unfold p_ch_parse. rewrite rx_if, re_not, (e_chunk_parse v2 b p rx cl rq nx Hi Hok Hs Hf).
      destruct (rc_parse_inv L (rv_chunk v2) b Hi) as [Hi1 Hm1].
      destruct (rc_parse L (rv_chunk v2) b) as [[k1 b2] r2]. cbn [fst] in Hi1, Hm1. cbv zeta.
      fold (with_chunk v2 k1).
      assert (Hd1 : small (nlen (rc_data k1))).
      { pose proof (rc_inv_data_bound L k1 Hi1). unfold small in *. lia. }
      assert (Hdone : outr (after (RX p_ch_done (stv (with_chunk v2 k1) b2 p rx cl rq nx))) =
                      res (if rc_valid k1 then
                             if c_concat cfg then
                               if rc_is_last k1 then (with_chunk v2 k1, b2, RX_VALID)
                               else if c_max_content cfg <? nlen (rv_body v2) + nlen (rc_data k1)
                               then invalid (with_chunk v2 k1) code_PAYLOAD_TOO_LARGE b2
                               else (mk_rv (rv_req v2) k1 (rv_body v2 ++ rc_data k1) (rv_code v2) (rv_continue_sent v2) (rv_is_head v2), b2, RX_INCOMPLETE)
                             else (with_chunk v2 k1, b2, RX_CHUNK)
                           else (with_chunk v2 k1, b2, RX_INCOMPLETE))).
      { unfold p_ch_done. rewrite rx_if, e_chunk_valid. cbn [rv_chunk with_chunk].
        destruct (rc_valid k1); cbv iota beta; [|rewrite rx_skip; reflexivity].
        rewrite rx_if, e_concat. destruct (c_concat cfg); cbv iota beta; [|rewrite rx_return; reflexivity].
        rewrite rx_if, e_chunk_is_last. cbn [rv_chunk with_chunk].
        destruct (rc_is_last k1); cbv iota beta; [rewrite rx_return; reflexivity|].
        rewrite rx_if, (e_sum (with_chunk v2 k1) b2 p rx cl rq nx Hb Hd1). cbn [rv_chunk rv_body with_chunk].
        destruct (c_max_content cfg <? nlen (rv_body v2) + nlen (rc_data k1)); cbv iota beta.
        - rewrite invalid_runs. reflexivity.
        - rewrite append_chunk_runs. reflexivity. }
      destruct r2; cbn [is_done negb]; cbv iota beta.
      - rewrite rx_skip. cbv iota beta. exact Hdone.
      - rewrite rx_if, re_or, e_more. destruct (nonempty b2); cbv iota beta; cbn [orb].
        + rewrite invalid_runs. reflexivity.
        + rewrite e_chunk_fail. cbn [rv_chunk with_chunk]. destruct (rc_failed k1); cbv iota beta.
          * rewrite invalid_runs. reflexivity.
          * rewrite rx_skip. cbv iota beta. exact Hdone.
      - rewrite rx_if, re_or, e_more. destruct (nonempty b2); cbv iota beta; cbn [orb].
        + rewrite invalid_runs. reflexivity.
        + rewrite e_chunk_fail. cbn [rv_chunk with_chunk]. destruct (rc_failed k1); cbv iota beta.
          * rewrite invalid_runs. reflexivity.
          * rewrite rx_skip. cbv iota beta. exact Hdone. }
    destruct p; cbv iota beta; cbn [andb].
    - rewrite rx_if, re_and, e_query, rq_expect_continue_is_the_source.
      destruct (rq_expect_continue (rv_req v2)); cbv iota beta; cbn [andb].
      + rewrite re_not, e_flag1. destruct (rv_continue_sent v2); cbv iota beta; cbn [negb].
        * rewrite rx_if, re_not, e_concat. destruct (c_concat cfg); cbv iota beta; cbn [negb].
          -- rewrite rx_skip. cbv iota beta. exact Hparse.
          -- rewrite rx_return. reflexivity.
        * rewrite rx_seq, set_code_runs. cbv iota beta. rewrite rx_return. reflexivity.
      + rewrite rx_if, re_not, e_concat. destruct (c_concat cfg); cbv iota beta; cbn [negb].
        * rewrite rx_skip. cbv iota beta. exact Hparse.
        * rewrite rx_return. reflexivity.
    - rewrite rx_skip. cbv iota beta. exact Hparse.
  Qed.

  Lemma chunked_runs p v b rx cl rq nx :
    rc_inv L (rv_chunk v) -> hd_ok (rc_trailers (rv_chunk v)) -> small (ck_max (rc_hdr (rv_chunk v))) -> small (nlen (rv_body v)) ->
    (length b + 2 <= fuel)%nat ->
    outr (after (RX p_chunked (stv v b p rx cl rq nx))) = res (receive_chunked cfg p v b).
  Proof.
    intros Hi Hok Hs Hb Hf. destruct v as [q k body code cs ih]. cbn [rv_chunk rv_body] in *.
    rewrite p_chunked_shape, rx_seq. unfold p_ch_clear. rewrite rx_if, e_chunk_valid. cbn [rv_chunk].
    change (receive_chunked cfg p (mk_rv q k body code cs ih) b)
      with (chunked_rest_model p (mk_rv q (if rc_valid k then rc_clear k else k) body code cs ih) b).
    destruct (rc_valid k) eqn:Ev; cbv iota beta.
    - rewrite chunk_clear_runs. cbv iota beta. cbn [with_chunk rv_req rv_chunk rv_body rv_code rv_continue_sent rv_is_head].
      destruct (rc_clear_inv L k) as [Hic Hmc].
      apply chunked_rest_runs; cbn [rv_chunk rv_body]; try assumption; try exact fl_ok_init; try (rewrite Hmc; exact Hs).
    - rewrite rx_skip. cbv iota beta. apply chunked_rest_runs; cbn [rv_chunk rv_body]; assumption.
  Qed.

  Lemma rq_parse_rest_len q buf q1 b1 r1 : rq_parse L q buf = (q1, b1, r1) -> (length b1 <= length buf)%nat.
  Proof.
    unfold rq_parse. intros E.
    destruct (if rl_valid (rq_line q) then (rq_line q, buf, Done) else rl_parse L (rq_line q) buf) as [[l1 bb] rr] eqn:El.
    assert (Hl : (length bb <= length buf)%nat).
    { destruct (rl_valid (rq_line q)); [inversion El; subst; lia | exact (rl_parse_len L buf _ _ _ _ El)]. }
    destruct rr; try (inversion E; subst; exact Hl).
    destruct (if hd_valid (rq_headers q) then (rq_headers q, bb, Done) else hd_parse L (rq_headers q) bb) as [[h1 b2] r2] eqn:Eh.
    assert (Hh : (length b2 <= length bb)%nat).
    { destruct (hd_valid (rq_headers q)); [inversion Eh; subst; lia | exact (proj1 (hd_parse_len L _ _ _ _ _ Eh))]. }
    destruct r2; inversion E; subst; lia.
  Qed.

  (* ---- the whole function ---- *)
  Theorem receive_is_the_source_cfg v buf :
    snd (receive cfg v buf) <> RX_UB ->
    hd_ok (rq_headers (rv_req v)) -> rc_inv L (rv_chunk v) -> hd_ok (rc_trailers (rv_chunk v)) ->
    small (ck_max (rc_hdr (rv_chunk v))) -> small (c_max_content cfg) -> small (nlen (rv_body v)) ->
    (length buf + 2 <= fuel)%nat ->
    rrun (rl_lim L) (fl_lim L) (hd_lim L) (ck_lim L) (rcode_of L) MAXC TH CC rv_clear_src fuel rv_receive_src (rv_store v) buf =
    res (receive cfg v buf).
  Proof.
    intros Hub Hokq Hi Hokt Hs Hmax Hb Hf.
    unfold rrun, rexec. fold (stv v buf false 0 0 0 []).
    rewrite rv_receive_src_shape.
    assert (Ehead := head_runs v buf Hokq Hf). cbv zeta in Ehead.
    (* split the sequence: (let; head); (host; (branch; return)) *)
    change (RX (RSeq (RLetParsed (RNot RReqValid)) (RSeq p_head (RSeq p_host (RSeq (RIf (RNot (RQuery rq_is_chunked_src)) p_cl p_chunked) (RReturn VX_INCOMPLETE)))))
               (stv v buf false 0 0 0 []))
      with (match RX (RSeq (RLetParsed (RNot RReqValid)) p_head) (stv v buf false 0 0 0 []) with
            | Some (None, s1) => RX (RSeq p_host (RSeq (RIf (RNot (RQuery rq_is_chunked_src)) p_cl p_chunked) (RReturn VX_INCOMPLETE))) s1
            | r => r end).
    rewrite Ehead. clear Ehead. unfold receive in *. cbv zeta in *.
    assert (Hlen : forall q1 b1 r1, (if negb (rq_valid (rv_req v)) then rq_parse L (rv_req v) buf else (rv_req v, buf, Done)) = (q1, b1, r1) ->
                   (length b1 <= length buf)%nat).
    { intros q1 b1 r1 E. destruct (negb (rq_valid (rv_req v))); [|inversion E; subst; lia].
      exact (rq_parse_rest_len _ _ _ _ _ E). }
    destruct (if negb (rq_valid (rv_req v)) then rq_parse L (rv_req v) buf else (rv_req v, buf, Done)) as [[q1 b1] r1] eqn:Eparse.
    specialize (Hlen q1 b1 r1 eq_refl).
    fold (with_req v q1) in *.
    destruct r1.
    2:{ destruct (nonempty b1 || rl_fail (rq_line q1) || hd_fail (rq_headers q1)); reflexivity. }
    2:{ destruct (nonempty b1 || rl_fail (rq_line q1) || hd_fail (rq_headers q1)); reflexivity. }
    (* the head is complete *)
    unfold receive_body in *.
    rewrite rx_seq. unfold p_host. rewrite rx_if, e_query, rq_missing_host_is_the_source. cbn [rv_req with_req] in *.
    destruct (rq_missing_host q1) eqn:Emh; rewrite ?Emh in Hub; cbv iota beta.
    - rewrite rx_seq, set_code_runs. cbv iota beta. rewrite rx_return. reflexivity.
    - rewrite rx_skip. cbv iota beta. rewrite rx_seq, rx_if, re_not, e_query, rq_is_chunked_is_the_source. cbn [rv_req with_req].
      destruct (hd_is_chunked (rq_headers q1)) eqn:Ech; rewrite ?Ech in Hub; cbv iota beta; cbn [negb] in *.
      + pose proof (chunked_runs (negb (rq_valid (rv_req v))) (with_req v q1) b1 0 0 0 [] Hi Hokt Hs Hb ltac:(lia)) as H.
        unfold outr, after in H.
        destruct (RX p_chunked (stv (with_req v q1) b1 (negb (rq_valid (rv_req v))) 0 0 0 [])) as [[[x|] s1]|]; exact H.
      + pose proof (cl_runs (negb (rq_valid (rv_req v))) (with_req v q1) b1 Hmax Hb Hub) as H.
        unfold outr, after in H.
        destruct (RX p_cl (stv (with_req v q1) b1 (negb (rq_valid (rv_req v))) 0 0 0 [])) as [[[x|] s1]|]; exact H.
  Qed.
End WithCfg.

(* request_receiver::receive: for every receiver whose parts are in states the connection can reach (the invariants of
   P_C05 / P_C06b / P_Frag, each kept by every call), limits below 2^63, every input and every sufficient fuel, the
   model's receive returns what the translated body returns: the Rx value, the receiver afterwards, the input left. *)
Theorem receive_is_the_source cfg v buf fuel :
  body_inv v ->
  hd_ok (rq_headers (rv_req v)) -> rc_inv (c_lim cfg) (rv_chunk v) -> hd_ok (rc_trailers (rv_chunk v)) ->
  small (ck_max (rc_hdr (rv_chunk v))) -> small (c_max_content cfg) -> small (nlen (rv_body v)) ->
  (length buf + 2 <= fuel)%nat ->
  rrun (rl_lim (c_lim cfg)) (fl_lim (c_lim cfg)) (hd_lim (c_lim cfg)) (ck_lim (c_lim cfg)) (rcode_of (c_lim cfg))
       (c_max_content cfg) (c_translate_head cfg) (c_concat cfg) rv_clear_src fuel rv_receive_src (rv_store v) buf =
  (let '(v', rest, r) := receive cfg v buf in
   match rx_of r with Some c => Some (c, rv_store v', rest) | None => None end).
Proof.
  intros Hbi Hokq Hi Hokt Hs Hmax Hb Hf.
  pose proof (receive_safe cfg v buf Hbi) as [_ Hub].
  exact (receive_is_the_source_cfg cfg fuel v buf Hub Hokq Hi Hokt Hs Hmax Hb Hf).
Qed.
