(* Properties_C16.v — C16: the built-in router dispatches by method and path pattern. *)
From Via Require Import M_Char M_Router P_C16.
Local Open Scope N_scope.

(* For every table registered through add_method with well-formed patterns (no NUL; every ':'
   starts a segment) and every target, handle_request does exactly what the
   segment-by-segment specification `dispatch` says: first registered pattern with as many
   segments as the path whose literal segments are equal and whose ':name' segments bind; then
   the method lookup: handler with exactly those bindings / 404 / 405 + sorted Allow list. *)
Theorem C16_refines : forall regs method target,
  Forall wf_registration regs ->
  handle_request (build_table regs) method target = dispatch (build_table regs) method target.
Proof. exact C16_refines_lemma. Qed.

(* it never throws (the substr in get_route_parameters is always in range) *)
Theorem C16_never_throws : forall regs method target,
  Forall wf_registration regs ->
  handle_request (build_table regs) method target <> DThrow.
Proof. exact C16_never_throws_lemma. Qed.

(* same statement over any table satisfying the route invariant *)
Theorem C16_refines_table : forall rs method target, Forall wf_route rs ->
  handle_request rs method target = dispatch rs method target.
Proof. exact handle_request_is_dispatch. Qed.

(* non-vacuity: "/a/:x/b/:y" on "/a/1/b/2?q#f" binds x=1, y=2 and nothing else *)
Example C16_example_literal_after_param :
  let regs := [ {| g_method := [71;69;84]; g_path := [47;97;47;58;120;47;98;47;58;121]; g_handler := 7%nat; g_auth := None |} ] in
  Forall wf_registration regs /\
  handle_request (build_table regs) [71;69;84] [47;97;47;49;47;98;47;50;63;113;35;102]
  = DHandler 7 None [([120], [49]); ([121], [50])].
Proof. split; [repeat constructor|vm_compute; reflexivity]. Qed.

(* the historical failing inputs: a path merely containing a route's prefix must not match,
   and a three-piece tail must be cut into three pieces *)
Example C16_example_substring_not_matched :
  let regs := [ {| g_method := [71;69;84]; g_path := [47;97;98]; g_handler := 1%nat; g_auth := None |} ] in
  handle_request (build_table regs) [71;69;84] [47;120;47;97;98] = DNotFound.
Proof. vm_compute. reflexivity. Qed.

Print Assumptions C16_refines.
Print Assumptions C16_never_throws.
