(* P_C05.v — the receivers never move an iterator backwards (no undefined slice), for every reachable state. *)
From Via Require Import M_Char M_Parse M_Receive P_Parse.
Require Import ZifyBool ZifyNat ZifyN.
Local Open Scope N_scope.

Definition body_inv (v : receiver) : Prop :=
  (rq_valid (rv_req v) = false -> rv_body v = []) /\
  (rq_valid (rv_req v) = true -> hd_is_chunked (rq_headers (rv_req v)) = false ->
   forall n, hd_content_length (rq_headers (rv_req v)) = Some n -> nlen (rv_body v) <= n).

Lemma body_inv_init cfg : body_inv (rv_init cfg).
Proof. split; [reflexivity|discriminate]. Qed.

Lemma body_inv_clear v : body_inv (rv_clear v).
Proof. split; [reflexivity|discriminate]. Qed.

Lemma body_inv_invalid v code rest : body_inv (fst (fst (invalid v code rest))) /\ snd (invalid v code rest) <> RX_UB.
Proof. split; [apply body_inv_clear|discriminate]. Qed.

Lemma nlen_app a b : nlen (a ++ b) = nlen a + nlen b.
Proof. unfold nlen. rewrite app_length. lia. Qed.

Lemma nlen_firstn n (l : list N) : (n <= length l)%nat -> nlen (firstn n l) = N.of_nat n.
Proof. intros H. unfold nlen. rewrite firstn_length. lia. Qed.

(* the state handed to the body branches: a valid head and a body within its Content-Length *)
Definition head_ok (v1 : receiver) : Prop :=
  rq_valid (rv_req v1) = true /\
  (hd_is_chunked (rq_headers (rv_req v1)) = false ->
   forall n, hd_content_length (rq_headers (rv_req v1)) = Some n -> nlen (rv_body v1) <= n).

Lemma head_ok_body_inv v : head_ok v -> body_inv v.
Proof. intros [Hv Hb]. split; [congruence|intros _; exact Hb]. Qed.

Ltac done_invalid := split; [apply body_inv_clear|discriminate].

Lemma receive_cl_safe cfg rp v1 b1 : head_ok v1 -> hd_is_chunked (rq_headers (rv_req v1)) = false ->
  body_inv (fst (fst (receive_cl cfg rp v1 b1))) /\ snd (receive_cl cfg rp v1 b1) <> RX_UB.
Proof.
  intros [Hv Hb] Hch. specialize (Hb Hch). unfold receive_cl.
  destruct (hd_content_length (rq_headers (rv_req v1))) as [n|] eqn:Ecl.
  2:{ destruct (rq_is_trace (rv_req v1) && negb false); done_invalid. }
  specialize (Hb n eq_refl).
  destruct (rq_is_trace (rv_req v1) && negb match n with 0 => true | _ => false end); [done_invalid|].
  set (v2 := if rq_is_trace (rv_req v1) && negb false then rv_set_code v1 code_METHOD_NOT_ALLOWED else v1).
  assert (Hv2 : rv_req v2 = rv_req v1 /\ rv_body v2 = rv_body v1) by (unfold v2; destruct (rq_is_trace (rv_req v1) && negb false); split; reflexivity).
  destruct Hv2 as [Hq2 Hb2].
  destruct ((0 <? n) && (c_max_content cfg <? n)); [done_invalid|].
  destruct ((n =? 0) && (0 <? nlen b1) && negb (nonempty (hd_find (rq_headers (rv_req v1)) hf_LC_CONTENT_LENGTH))); [done_invalid|].
  rewrite Hb2. remember (Z.of_N n - Z.of_N (nlen (rv_body v1)))%Z as req eqn:Ereq.
  assert (Hreq : (0 <= req)%Z) by lia.
  destruct ((req <? 0)%Z && (req <? Z.of_N (nlen b1))%Z) eqn:Eub; [exfalso; lia|].
  destruct (req <? Z.of_N (nlen b1))%Z eqn:Elt.
  - assert (Hf : nlen (rv_body v1 ++ firstn (Z.to_nat req) b1) = n).
    { rewrite nlen_app, nlen_firstn; [lia|]. unfold nlen in Elt. lia. }
    rewrite Hf, N.eqb_refl. cbn [fst snd]. split; [|discriminate].
    split; cbn [rv_req rv_body].
    + destruct (rq_is_head (rv_req v1) && c_translate_head cfg); cbn; congruence.
    + intros _ _ m Hm. assert (m = n); [|subst; lia].
      destruct (rq_is_head (rv_req v1) && c_translate_head cfg); cbn in Hm; congruence.
  - assert (Hle : nlen (rv_body v1 ++ b1) <= n) by (rewrite nlen_app; lia).
    destruct (nlen (rv_body v1 ++ b1) =? n).
    + cbn [fst snd]. split; [|discriminate]. split; cbn [rv_req rv_body].
      * destruct (rq_is_head (rv_req v1) && c_translate_head cfg); cbn; congruence.
      * intros _ _ m Hm. assert (m = n); [|subst; exact Hle].
        destruct (rq_is_head (rv_req v1) && c_translate_head cfg); cbn in Hm; congruence.
    + match goal with |- context [if ?c then (_, _, RX_EXPECT_CONTINUE) else _] => destruct c end;
        cbn [fst snd]; (split; [|discriminate]); (split; cbn [rv_set_code rv_req rv_body]; rewrite ?Hq2; [congruence|]);
        intros _ _ m Hm; assert (m = n) by congruence; subst; exact Hle.
Qed.

Lemma receive_chunked_safe cfg rp v1 b1 : head_ok v1 -> hd_is_chunked (rq_headers (rv_req v1)) = true ->
  body_inv (fst (fst (receive_chunked cfg rp v1 b1))) /\ snd (receive_chunked cfg rp v1 b1) <> RX_UB.
Proof.
  intros [Hv _] Hch. unfold receive_chunked.
  assert (G : forall v', rv_req v' = rv_req v1 -> body_inv v').
  { intros v' E. split; rewrite E; [congruence|]. intros _ Hc. congruence. }
  destruct (rp && rq_expect_continue (rv_req v1) && negb _); [split; [apply G; reflexivity|discriminate]|].
  destruct (rp && negb (c_concat cfg)); [split; [apply G; reflexivity|discriminate]|].
  destruct (rc_parse _ _ _) as [[k1 b2] r2].
  destruct (match r2 with Done => false | _ => nonempty b2 || rc_failed k1 end); [done_invalid|].
  destruct (rc_valid k1); [|split; [apply G; reflexivity|discriminate]].
  destruct (c_concat cfg); [|split; [apply G; reflexivity|discriminate]].
  destruct (rc_is_last k1); [split; [apply G; reflexivity|discriminate]|].
  destruct (c_max_content cfg <? _); [done_invalid|]. split; [apply G; reflexivity|discriminate].
Qed.

Lemma receive_body_safe cfg rp v1 b1 : head_ok v1 ->
  body_inv (fst (fst (receive_body cfg rp v1 b1))) /\ snd (receive_body cfg rp v1 b1) <> RX_UB.
Proof.
  intros H. unfold receive_body. destruct (rq_missing_host (rv_req v1)).
  - split; [|discriminate]. apply head_ok_body_inv. exact H.
  - destruct (hd_is_chunked (rq_headers (rv_req v1))) eqn:Ech; cbn [negb].
    + apply receive_chunked_safe; assumption.
    + apply receive_cl_safe; assumption.
Qed.

Lemma rq_parse_valid L q buf q1 rest r : rq_parse L q buf = (q1, rest, r) ->
  rq_valid q = false -> (rq_valid q1 = true <-> r = Done).
Proof.
  unfold rq_parse. intros H Hv.
  destruct (if rl_valid (rq_line q) then (rq_line q, buf, Done) else rl_parse L (rq_line q) buf) as [[l1 b1] r1].
  destruct r1.
  - destruct (if hd_valid (rq_headers q) then (rq_headers q, b1, Done) else hd_parse L (rq_headers q) b1) as [[h1 b2] r2].
    destruct r2; inversion H; subst; cbn; rewrite ?Hv; split; congruence.
  - inversion H; subst; cbn; rewrite Hv; split; congruence.
  - inversion H; subst; cbn; rewrite Hv; split; congruence.
Qed.

Theorem receive_safe cfg v buf : body_inv v ->
  body_inv (fst (fst (receive cfg v buf))) /\ snd (receive cfg v buf) <> RX_UB.
Proof.
  intros [Hi1 Hi2]. unfold receive.
  destruct (rq_valid (rv_req v)) eqn:Ev; cbn [negb].
  - apply receive_body_safe. split; cbn [rv_req rv_body]; [exact Ev|]. intros Hc. destruct v; cbn in *. apply Hi2; auto.
  - destruct (rq_parse (c_lim cfg) (rv_req v) buf) as [[q1 b1] r1] eqn:Ep.
    pose proof (rq_parse_valid _ _ _ _ _ _ Ep Ev) as Hval. specialize (Hi1 eq_refl).
    destruct r1.
    + apply receive_body_safe. split; cbn [rv_req rv_body]; [apply Hval; reflexivity|].
      intros _ n _. rewrite Hi1. unfold nlen. cbn. lia.
    + assert (Hq1 : rq_valid q1 = false) by (destruct (rq_valid q1); [destruct Hval as [H _]; specialize (H eq_refl); discriminate|reflexivity]).
      destruct (nonempty b1 || rl_fail (rq_line q1) || hd_fail (rq_headers q1)); [done_invalid|].
      split; [|discriminate]. split; cbn; [intros _; exact Hi1|congruence].
    + assert (Hq1 : rq_valid q1 = false) by (destruct (rq_valid q1); [destruct Hval as [H _]; specialize (H eq_refl); discriminate|reflexivity]).
      destruct (nonempty b1 || rl_fail (rq_line q1) || hd_fail (rq_headers q1)); [done_invalid|].
      split; [|discriminate]. split; cbn; [intros _; exact Hi1|congruence].
Qed.

Lemma dispatch_inv cfg v r : body_inv v -> body_inv (fst (dispatch_rx cfg v r)).
Proof.
  intros H. unfold dispatch_rx. destruct r; cbn [fst]; try exact H; try apply body_inv_clear.
  - destruct (c_defer_continue cfg); exact H.
  - destruct (negb (rq_is_trace (rv_req v))); [|apply body_inv_clear].
    destruct (hd_is_chunked _ && negb _); [exact H|apply body_inv_clear].
  - destruct (rc_is_last (rv_chunk v)); [apply body_inv_clear|exact H].
Qed.

Definition calls_ok (calls : list (rx * N)) : Prop := Forall (fun c => fst c <> RX_UB) calls.

Lemma rx_loop_safe fuel : forall cfg v buf, body_inv v ->
  let '(v', _, calls, _) := rx_loop fuel cfg v buf in body_inv v' /\ calls_ok calls.
Proof.
  induction fuel as [|fuel IH]; intros cfg v buf Hv; destruct buf as [|c t]; cbn [rx_loop];
    try (split; [exact Hv|constructor]).
  destruct (receive cfg v (c :: t)) as [[v1 rest] r] eqn:Er.
  pose proof (receive_safe cfg v (c :: t) Hv) as [Hs1 Hs2]. rewrite Er in Hs1, Hs2. cbn [fst snd] in Hs1, Hs2.
  destruct (dispatch_rx cfg v1 r) as [v2 evs] eqn:Ed.
  pose proof (dispatch_inv cfg v1 r Hs1) as Hd. rewrite Ed in Hd. cbn [fst] in Hd.
  destruct r; try (split; [exact Hd|repeat constructor; exact Hs2]); try congruence;
    (specialize (IH cfg v2 rest Hd); destruct (rx_loop fuel cfg v2 rest) as [[[v3 evs'] calls] oof];
     destruct IH as [I1 I2]; split; [exact I1|constructor; [exact Hs2|exact I2]]).
Qed.

Theorem feed_safe cfg frags : forall v, body_inv v ->
  let '(v', _, calls, _) := feed cfg v frags in body_inv v' /\ Forall calls_ok calls.
Proof.
  induction frags as [|f t IH]; intros v Hv; cbn [feed]; [split; [exact Hv|constructor]|].
  unfold read_loop. pose proof (rx_loop_safe (loop_fuel f) cfg v f Hv) as H1.
  destruct (rx_loop (loop_fuel f) cfg v f) as [[[v1 e1] c1] o1]. destruct H1 as [H1 H1'].
  specialize (IH v1 H1). destruct (feed cfg v1 t) as [[[v2 e2] c2] o2]. destruct IH as [I1 I2].
  split; [exact I1|constructor; assumption].
Qed.

(* from a fresh connection, for every sequence of reads whatsoever: no receive call is undefined *)
Corollary C05_no_ub_lemma cfg frags :
  let '(_, _, calls, _) := feed cfg (rv_init cfg) frags in Forall calls_ok calls.
Proof.
  pose proof (feed_safe cfg frags (rv_init cfg) (body_inv_init cfg)) as H.
  destruct (feed cfg (rv_init cfg) frags) as [[[v e] c] o]. apply H.
Qed.
