#!/bin/bash
# coqshow.sh FILE LINE — replace line LINE by "Show. admit." and print the goals (debug helper)
F="$1"; L="$2"
sed "${L}s/.*/ Show. admit./" "$F" > /tmp/D_show.v
cd /verif/coq && timeout 120 coqc -Q . Via /tmp/D_show.v 2>&1 | head -${3:-60}
