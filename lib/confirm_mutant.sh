#!/bin/bash
# confirm_mutant.sh <worktree> <k> — independent confirmation of a seeded change in its scratch worktree:
# tests pass with it, demo fails with it, demo passes without it.
W="$1"; K="$2"; M="$W/mutants/$K"
cd "$W" || exit 2
git checkout -q -- include
git apply "$M/patch.diff" || { echo "apply failed"; exit 3; }
cmake --build _build -j16 >/dev/null 2>&1 || { echo "TEST BUILD FAILED with change"; git checkout -q -- include; exit 4; }
T=$(./_build/via-httplib_test 2>&1 | grep -c "No errors detected")
(cd "$M" && bash run.sh >/tmp/confirm_demo_with.log 2>&1); D1=$?
git checkout -q -- include
(cd "$M" && bash run.sh >/tmp/confirm_demo_without.log 2>&1); D0=$?
echo "mutant $W/$K: tests_pass_with_change=$T demo_rc_with=$D1 demo_rc_without=$D0"
