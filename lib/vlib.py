"""vlib.py — shared machinery of ./check: builds (Coq, extraction, C++ harnesses), the
correspondence runner, verdicts, known findings, evidence and replay files."""
import time, os, sys, re, json, time, hashlib, subprocess, random, fcntl, shutil, glob

VERIF = os.path.dirname(os.path.dirname(os.path.abspath(__file__)))
REPO = os.environ.get("VERIF_REPO", "/repo")
BUILD = os.path.join(VERIF, "build")
COQ = os.path.join(VERIF, "coq")
GUARD = "VIA_HTTPLIB_VERIF"
NCPU = 16

os.makedirs(BUILD, exist_ok=True)


def sh(cmd, cwd=None, timeout=None, env=None, inp=None):
    """run a command, return (rc, stdout+stderr)"""
    try:
        p = subprocess.run(cmd, cwd=cwd, timeout=timeout, env=env, input=inp, shell=isinstance(cmd, str),
                           stdout=subprocess.PIPE, stderr=subprocess.STDOUT, text=True, errors="replace")
        return p.returncode, p.stdout
    except subprocess.TimeoutExpired as e:
        out = e.stdout if isinstance(e.stdout, str) else (e.stdout or b"").decode(errors="replace")
        return 124, (out or "") + "\nTIMEOUT after %ss" % timeout


class Lock:
    def __init__(self, name):
        self.path = os.path.join(BUILD, ".lock_" + name)

    def __enter__(self):
        self.f = open(self.path, "w")
        fcntl.flock(self.f, fcntl.LOCK_EX)
        return self

    def __exit__(self, *a):
        fcntl.flock(self.f, fcntl.LOCK_UN)
        self.f.close()


def file_hash(paths, extra=""):
    h = hashlib.sha256(extra.encode())
    for p in sorted(paths):
        h.update(p.encode())
        try:
            with open(p, "rb") as f:
                h.update(f.read())
        except OSError:
            h.update(b"<missing>")
    return h.hexdigest()


def repo_include_files():
    out = []
    for root, _, files in os.walk(os.path.join(REPO, "include")):
        for fn in files:
            out.append(os.path.join(root, fn))
    return out


# ------------------------------------------------------------------------------------------
# translators
TRANSLATORS = ["tables.py", "shapes.py", "locks.py", "access.py", "parse.py"]


def regenerate():
    """run every translator; returns list of (name, message) for those that failed.
    A translator is skipped when neither it nor any file under /repo/include changed since its last
    successful run and its output is still the file it wrote (content hashes, not timestamps)."""
    errs = []
    with Lock("coq"):
        for t in TRANSLATORS:
            p = os.path.join(VERIF, "translate", t)
            if not os.path.exists(p):
                continue
            outv = os.path.join(COQ, "Gen_" + t[:-3].capitalize() + ".v")
            stamp = os.path.join(BUILD, ".translate_" + t + ".stamp")
            key = file_hash(repo_include_files() + [p, outv])
            if os.path.exists(outv) and os.path.exists(stamp) and open(stamp).read() == key:
                continue
            rc, out = sh([sys.executable, p], timeout=300)
            if rc != 0:
                errs.append((t, out.strip()[-2000:]))
                if os.path.exists(stamp):
                    os.remove(stamp)
            else:
                open(stamp, "w").write(file_hash(repo_include_files() + [p, outv]))
    return errs


# ------------------------------------------------------------------------------------------
# Coq
def coq_files():
    """every .v of the development (Extract.v is compiled separately, from build/ocaml)"""
    return sorted(os.path.basename(p) for p in glob.glob(os.path.join(COQ, "*.v")) if os.path.basename(p) != "Extract.v")


def write_coqproject():
    txt = "-Q . Via\n" + "\n".join(coq_files()) + "\n"
    p = os.path.join(COQ, "_CoqProject")
    if not os.path.exists(p) or open(p).read() != txt:
        open(p, "w").write(txt)


def coq_deps(vfile):
    """direct dependencies inside the project"""
    deps = []
    try:
        src = open(os.path.join(COQ, vfile)).read()
    except OSError:
        return deps
    src = re.sub(r"\(\*.*?\*\)", "", src, flags=re.S)
    for m in re.finditer(r"From\s+Via\s+Require\s+(?:Import\s+|Export\s+)?([^.]*)\.", src):
        for name in m.group(1).split():
            deps.append(name + ".v")
    return deps


def coq_cone(vfile):
    seen, order = set(), []

    def go(f):
        if f in seen:
            return
        seen.add(f)
        for d in coq_deps(f):
            go(d)
        order.append(f)
    go(vfile)
    return order


OBL_RE = re.compile(r"^\s*(?:Local\s+|Global\s+)?(Lemma|Theorem|Corollary|Example|Fact|Remark|Proposition)\s+(\w+)", re.M)


def coq_obligations(vfile):
    src = open(os.path.join(COQ, vfile)).read()
    src = re.sub(r"\(\*.*?\*\)", "", src, flags=re.S)
    names = [m.group(2) for m in OBL_RE.finditer(src)]
    return names, len(re.findall(r"\bQed\.", src)) + len(re.findall(r"\bDefined\.", src))


# vernacular that declares an axiom, at the start of a sentence (line start or after ". ")
HYGIENE_RE = re.compile(r"(?:^|(?<=\.\s))\s*(?:Local\s+|Global\s+|Polymorphic\s+|Monomorphic\s+|#\[[^\]]*\]\s*)*"
                        r"(Axiom|Axioms|Parameter|Parameters|Conjecture|Conjectures)\b"
                        r"|\b(Admitted|admit|give_up|Abort All)\b|Unset\s+Guard|Unset\s+Positivity|Unset\s+Universe|bypass_check"
                        r"|Admit\s+Obligations|-type-in-type|impredicative-set|native_compute", re.M)


def coq_hygiene():
    """forbidden constructs anywhere in the development (comments stripped)"""
    bad = []
    for f in coq_files():
        src = open(os.path.join(COQ, f)).read()
        src = re.sub(r"\(\*.*?\*\)", "", src, flags=re.S)
        for m in HYGIENE_RE.finditer(src):
            bad.append("%s: %s" % (f, m.group(0)))
        # Variable / Hypothesis outside a section
        depth = 0
        for line in src.split("\n"):
            if re.match(r"\s*Section\s+\w+", line):
                depth += 1
            elif re.match(r"\s*End\s+\w+", line):
                depth = max(0, depth - 1)
            elif depth == 0 and re.match(r"\s*(Variable|Variables|Hypothesis|Hypotheses|Context)\b", line):
                bad.append("%s: top-level %s" % (f, line.strip()))
    return bad


def coq_make(targets, timeout=1500):
    """(re)build the given .vo targets; returns (ok_by_target, log)"""
    with Lock("coq"):
        write_coqproject()
        mk = os.path.join(COQ, "Makefile")
        cp = os.path.join(COQ, "_CoqProject")
        if (not os.path.exists(mk)) or os.path.getmtime(mk) < os.path.getmtime(cp):
            rc, out = sh(["coq_makefile", "-f", "_CoqProject", "-o", "Makefile"], cwd=COQ, timeout=120)
            if rc != 0:
                return {t: False for t in targets}, out
        rc, out = sh(["make", "-k", "-j%d" % NCPU] + targets, cwd=COQ, timeout=timeout)
        res = {}
        for t in targets:
            vo = os.path.join(COQ, t)
            v = vo[:-1]
            res[t] = os.path.exists(vo) and os.path.getmtime(vo) >= os.path.getmtime(v) and \
                not re.search(r"^File \"\./%s\".*\n(?:.*\n)*?Error" % re.escape(os.path.basename(v)), out, flags=re.M)
        # a dependency failing leaves an old .vo behind: make says "Error" for the target chain
        if rc != 0:
            failed_files = set(re.findall(r'File "\./([\w.]+)", line \d+, characters [\d-]+:\nError', out))
            for t in targets:
                cone = set(coq_cone(t[:-1]))
                if cone & failed_files:
                    res[t] = False
        return res, out


def coq_failed_files(log):
    return sorted(set(re.findall(r'File "\./([\w.]+)", line \d+, characters [\d-]+:\nError', log)))


def coq_first_error(log, maxlen=1500):
    m = re.search(r'File "\./[\w.]+", line \d+, characters [\d-]+:\nError.*?(?=\nmake|\nFile |\Z)', log, flags=re.S)
    return (m.group(0) if m else log[-maxlen:])[:maxlen]


def print_assumptions(prop_vo):
    """re-run coqc on the (already built) property file to capture Print Assumptions output"""
    v = prop_vo[:-1]
    with Lock("coq"):
        rc, out = sh(["coqc", "-Q", ".", "Via", v], cwd=COQ, timeout=600)
    blocks = []
    for m in re.finditer(r"(Closed under the global context|Axioms:\n(?:.+\n?)+)", out):
        blocks.append(m.group(1).strip())
    return rc, blocks, out


# ------------------------------------------------------------------------------------------
# extraction + OCaml driver
def build_driver():
    """extract the model and build build/ocaml/driver; returns (path|None, log)"""
    with Lock("ocaml"):
        od = os.path.join(BUILD, "ocaml")
        os.makedirs(od, exist_ok=True)
        ext_v = os.path.join(COQ, "Extract.v")
        cone = [os.path.join(COQ, f) for f in coq_cone("Extract.v")]
        mls = sorted(glob.glob(os.path.join(VERIF, "ocaml", "*.ml")))
        key = file_hash(cone + mls)
        stamp = os.path.join(od, ".stamp")
        drv = os.path.join(od, "driver")
        if os.path.exists(drv) and os.path.exists(stamp) and open(stamp).read() == key:
            return drv, "cached"
        res, log = coq_make([f[:-2] + ".vo" for f in coq_cone("Extract.v") if f != "Extract.v"])
        if not all(res.values()):
            return None, "model does not compile:\n" + coq_first_error(log)
        rc, out = sh(["coqc", "-Q", COQ, "Via", ext_v], cwd=od, timeout=600)
        if rc != 0:
            return None, "extraction failed:\n" + out[-3000:]
        for m in mls:
            shutil.copy(m, od)
        order = ["dutil.ml"] + sorted(os.path.basename(m) for m in mls if os.path.basename(m).startswith("ops_")) + ["driver.ml"]
        rc, out = sh(["ocamlfind", "ocamlopt", "-w", "-a", "-inline", "100", "model.mli", "model.ml"] + order + ["-o", "driver"],
                     cwd=od, timeout=600)
        if rc != 0:
            return None, "driver build failed:\n" + out[-3000:]
        open(stamp, "w").write(key)
        return drv, "built"


# ------------------------------------------------------------------------------------------
# C++ harnesses
SAN_FLAGS = ["-fsanitize=address,undefined", "-fno-sanitize-recover=all", "-fno-omit-frame-pointer"]


HARNESS_LIBS = {"h_tls": ["-lssl", "-lcrypto"]}


def build_harness(name, flavour="plain", extra=None, timeout=900):
    """compile cpp/<name>.cpp against /repo/include as it is now; returns (path|None, log)"""
    extra = extra or []
    src = os.path.join(VERIF, "cpp", name + ".cpp")
    hdrs = glob.glob(os.path.join(VERIF, "cpp", "*.hpp"))
    flags = ["-std=c++17", "-I" + os.path.join(REPO, "include"), "-I" + os.path.join(VERIF, "cpp"), "-D" + GUARD, "-pthread"]
    if flavour == "plain":
        flags += ["-O1"]
    elif flavour == "asan":
        flags += ["-O1", "-g"] + SAN_FLAGS
    elif flavour == "debug":
        flags += ["-O0", "-g", "-D_GLIBCXX_DEBUG"] + SAN_FLAGS
    elif flavour == "tsan":
        flags += ["-O1", "-g", "-fsanitize=thread"]
    flags += extra
    key = file_hash(repo_include_files() + [src] + hdrs, " ".join(flags))
    out_bin = os.path.join(BUILD, "%s_%s%s" % (name, flavour, ("_" + hashlib.sha1(" ".join(extra).encode()).hexdigest()[:6]) if extra else ""))
    with Lock("cpp_" + os.path.basename(out_bin)):
        stamp = out_bin + ".stamp"
        if os.path.exists(out_bin) and os.path.exists(stamp) and open(stamp).read() == key:
            return out_bin, "cached"
        rc, out = sh(["g++"] + flags + [src, "-o", out_bin] + HARNESS_LIBS.get(name, []), timeout=timeout)
        if rc != 0:
            return None, out[-4000:]
        open(stamp, "w").write(key)
        return out_bin, "built"


def run_cases(binary, cases, timeout=600, env=None):
    """feed case lines to a binary; returns list of result lines (padded with CRASH markers)"""
    inp = "\n".join(cases) + "\n"
    e = dict(os.environ)
    e.setdefault("ASAN_OPTIONS", "detect_leaks=0:abort_on_error=0")
    e.setdefault("UBSAN_OPTIONS", "print_stacktrace=1")
    if env:
        e.update(env)
    pre = None
    if os.path.basename(binary) == "driver":
        # the extracted model recurses over lists structurally: inputs of a megabyte need a deeper stack than the default 8 MiB
        def pre():
            import resource
            soft, hard = resource.getrlimit(resource.RLIMIT_STACK)
            want = 4 << 30
            resource.setrlimit(resource.RLIMIT_STACK, (want if hard == resource.RLIM_INFINITY else min(want, hard), hard))
    try:
        p = subprocess.run([binary], input=inp, stdout=subprocess.PIPE, stderr=subprocess.PIPE, timeout=timeout,
                           text=True, errors="replace", env=e, preexec_fn=pre)
        lines = p.stdout.split("\n")
        if lines and lines[-1] == "":
            lines.pop()
        rc, err = p.returncode, p.stderr
    except subprocess.TimeoutExpired as ex:
        so = ex.stdout if isinstance(ex.stdout, str) else (ex.stdout or b"").decode(errors="replace")
        lines = so.split("\n")[:-1]
        rc, err = 124, "TIMEOUT"
    return lines, rc, err


def run_case_retry(binary, case, timeout=600, env=None, tries=3):
    """one case of a real-socket harness; an environment problem of the harness itself (no free port, listen failed)
    is retried, it says nothing about the library"""
    out, rc, err = [], 0, ""
    for _ in range(tries):
        out, rc, err = run_cases(binary, [case], timeout=timeout, env=env)
        if not (out and out[0].startswith("HARNESS-ERROR")):
            break
        time.sleep(0.5)
    return out, rc, err


def run_cases_resilient(binary, cases, timeout=600, env=None):
    """like run_cases, but when the process dies on a case, record the crash for that case and
    continue with the rest (each crash costs one restart)."""
    results = []
    i = 0
    crashes = []
    while i < len(cases):
        lines, rc, err = run_cases(binary, cases[i:], timeout=timeout, env=env)
        results.extend(lines[:len(cases) - i])
        got = len(lines)
        if got >= len(cases) - i:
            break
        # case i+got crashed the process
        kind = "TIMEOUT" if rc == 124 else "CRASH rc=%d" % rc
        m = re.search(r"(ERROR: AddressSanitizer: [\w-]+|runtime error: [^\n]*|terminate called[^\n]*\n[^\n]*|Error: attempt to [^\n]*)", err or "")
        detail = m.group(1).replace("\n", " ") if m else (err or "").strip().split("\n")[-1][:200]
        results.append("%s %s" % (kind, detail))
        crashes.append((i + got, err[-3000:] if err else ""))
        i = i + got + 1
        if len(crashes) > max(200, len(cases) // 2 + 50):
            results.extend(["SKIPPED too-many-crashes"] * (len(cases) - len(results)))
            break
    return results, crashes


# ------------------------------------------------------------------------------------------
# known findings
def load_findings():
    p = os.path.join(VERIF, "known_findings.json")
    if not os.path.exists(p):
        return []
    return json.load(open(p)).get("findings", [])


# ------------------------------------------------------------------------------------------
class Check:
    """one run of one property's check"""

    def __init__(self, pid, tier, seed):
        self.pid, self.tier, self.seed = pid, tier, seed
        self.rng = random.Random(seed * 1000003 + int(pid[1:]))
        self.t0 = time.time()
        self.violations = []     # dicts: what, replay-data, found_input(bool)
        self.known_hits = {}     # finding id -> count
        self.notes = []
        self.cov = {"evaluations": 0, "distinct_nontrivial": 0, "samples": [], "rule": "",
                    "obligations": 0, "discharged": 0, "checker_cmd": "", "trusted_base": []}
        self.assumptions = []
        self.findings = [f for f in load_findings() if f.get("property") == pid]
        # replay files are rewritten by every run
        shutil.rmtree(os.path.join(VERIF, "replays", pid), ignore_errors=True)
        self.distinct = set()
        self.proof_ok = True
        self.broken = []         # names of theorems/files/correspondences that no longer check

    # ---- proof side
    def prove(self, prop_module, extra_modules=()):
        """build Properties_<id>.vo (+ cone); record obligations; returns True when everything checked"""
        errs = regenerate()
        for t, msg in errs:
            self.broken.append("translator %s: %s" % (t, msg.split("\n")[-1]))
        targets = [prop_module + ".vo"] + [m + ".vo" for m in extra_modules]
        bad = coq_hygiene()
        res, log = coq_make(targets)
        cone = []
        for t in targets:
            for f in coq_cone(t[:-1]):
                if f not in cone:
                    cone.append(f)
        failed = set(coq_failed_files(log))
        obl = 0
        dis = 0
        for f in cone:
            names, qeds = coq_obligations(f)
            obl += len(names)
            if not (set(coq_cone(f)) & failed) and os.path.exists(os.path.join(COQ, f[:-2] + ".vo")):
                dis += len(names)
        self.cov["obligations"] = obl
        self.cov["discharged"] = dis
        self.cov["checker_cmd"] = "cd coq && coq_makefile -f _CoqProject -o Makefile && make -k -j16 " + " ".join(targets)
        self.cov["coq_files_in_cone"] = cone
        ok = all(res.values()) and not errs
        if bad:
            ok = False
            self.broken.append("hygiene: " + "; ".join(bad[:5]))
        if not all(res.values()):
            self.broken.append("proof: " + coq_first_error(log))
        if all(res.values()):
            rc, blocks, out = print_assumptions(prop_module + ".vo")
            self.cov["print_assumptions"] = blocks
            for b in blocks:
                if b != "Closed under the global context":
                    self.notes.append("axioms: " + b)
        self.proof_ok = ok
        self.cov["trusted_base"] = [
            "Coq 8.16.1 kernel (coqc; vm_compute used for finite sweeps and witnesses; no native_compute)",
            "Print Assumptions per theorem: " + ("; ".join(sorted(set(self.cov.get("print_assumptions", [])))) or "n/a (proof did not check)"),
            "translators translate/*.py (tables, lock protocol, access summary, adaptor fingerprints; parse.py: the bodies of the parser functions as terms of the deep embedding M_Imp/M_Loop/M_Hdr/M_Msg/M_Chunk, whose interpreters - the meaning given to the C++ statements, message_headers::add taken as fields_add - are trusted) — regenerate coq/Gen_*.v from /repo on every run",
            "extraction: Require Extraction + ExtrOcamlBasic only (Extract Inductive bool/option/unit/list/prod/sumbool/sumor, Extract Inlined Constant andb/orb); N/positive/nat/Z stay inductive; OCaml 4.13.1 ocamlfind ocamlopt; hand-written ocaml/*.ml driver",
            "correspondence harnesses cpp/*.cpp built with g++ 12 against /repo/include at check time (-DVIA_HTTPLIB_VERIF), python orchestrator and canonicalisers",
            "hand-written Gallina model coq/M_*.v: faithful to the code only as far as the correspondence run shows",
        ]
        return ok

    # ---- correspondence
    def correspond(self, harness, cases, flavour="plain", label=None, canon=None, extra=None, timeout=900, model_cases=None):
        """run model and implementation on the same cases; returns (pairs, diffs) where
        pairs = [(case, model_out, impl_out)]"""
        label = label or harness
        drv, dlog = build_driver()
        if drv is None:
            self.broken.append("model build: " + dlog[-800:])
            return [], []
        hb, hlog = build_harness(harness, flavour, extra=extra)
        if hb is None:
            self.broken.append("harness %s does not compile against the current tree: %s" % (harness, hlog[-800:]))
            return [], []
        mcases = model_cases if model_cases is not None else cases
        mo, mrc, merr = run_cases(drv, mcases, timeout=timeout)
        if len(mo) < len(mcases):
            mo += ["MODEL-CRASH"] * (len(mcases) - len(mo))
        io, crashes = run_cases_resilient(hb, cases, timeout=timeout)
        if len(io) < len(cases):
            io += ["IMPL-MISSING"] * (len(cases) - len(io))
        pairs, diffs = [], []
        for c, m, i in zip(cases, mo, io):
            if canon:
                m2, i2 = canon(c, m), canon(c, i)
            else:
                m2, i2 = m, i
            pairs.append((c, m2, i2))
            if m2 != i2:
                diffs.append((c, m2, i2))
        self.cov["evaluations"] += len(cases)
        self.cov.setdefault("correspondence", {})[label] = {"cases": len(cases), "differences": len(diffs), "flavour": flavour}
        return pairs, diffs

    def count_distinct(self, key):
        self.distinct.add(key)

    # ---- verdicts
    def match_finding(self, signature):
        for f in self.findings:
            if f.get("status", "open") == "open" and f.get("signature") == signature:
                return f
        return None

    def violation(self, what, replay, found_input=True, signature=None):
        """report a property failure (deduplicated by signature when given)"""
        if signature:
            f = self.match_finding(signature)
            if f is not None:
                self.known_hits[f["id"]] = self.known_hits.get(f["id"], 0) + 1
                return
        for v in self.violations:
            if signature and v.get("signature") == signature:
                v["count"] += 1
                return
        self.violations.append({"what": what, "replay": replay, "found_input": found_input, "signature": signature, "count": 1})

    def finish(self):
        """decide, print, write evidence; returns exit code"""
        # broken proof / correspondence with no concrete failing input
        if self.broken and not any(v["found_input"] for v in self.violations):
            self.violations.append({"what": "no longer shown to hold: " + " | ".join(b.split("\n")[0][:300] for b in self.broken),
                                    "replay": {"broken": self.broken}, "found_input": False, "signature": None, "count": 1})
        rdir = os.path.join(VERIF, "replays", self.pid)
        rc = 0
        for f in self.findings:
            if f.get("status", "open") == "open":
                n = self.known_hits.get(f["id"], 0)
                print("KNOWN-FINDING: property=%s %s [%s; reproduced on %d case(s) this run]" % (self.pid, f["what"], f["id"], n))
        for v in self.violations:
            os.makedirs(rdir, exist_ok=True)
            body = {"property": self.pid, "what": v["what"], "signature": v["signature"], "cases_with_this_signature": v["count"],
                    "tier": self.tier, "seed": self.seed, "replay": v["replay"], "broken": self.broken}
            h = hashlib.sha1(json.dumps(body, sort_keys=True).encode()).hexdigest()[:12]
            path = os.path.join(rdir, h + ".json")
            json.dump(body, open(path, "w"), indent=1)
            tail = "" if v["found_input"] else " no-failing-input-found"
            print("VIOLATION property=%s replay=%s  # %s%s" % (self.pid, path, v["what"][:160].replace("\n", " "), tail)
                  if v["found_input"] else
                  "VIOLATION property=%s replay=%s no-failing-input-found" % (self.pid, path))
            rc = 1
        self.cov["distinct_nontrivial"] = len(self.distinct)
        ev = {"property_id": self.pid, "tier": self.tier, "seed": self.seed, "level": "proof",
              "coverage": self.cov, "assumptions": self.assumptions, "wall_s": round(time.time() - self.t0, 2),
              "violations": len(self.violations),
              "known_findings_reproduced": self.known_hits, "notes": self.notes}
        os.makedirs(os.path.join(VERIF, "evidence"), exist_ok=True)
        json.dump(ev, open(os.path.join(VERIF, "evidence", self.pid + ".json"), "w"), indent=1)
        print("%s %s tier=%s seed=%d proofs=%d/%d evaluations=%d distinct=%d wall=%.1fs" % (
            "FAIL" if rc else "PASS", self.pid, self.tier, self.seed, self.cov["discharged"], self.cov["obligations"],
            self.cov["evaluations"], len(self.distinct), time.time() - self.t0))
        return rc


def hexs(b):
    if isinstance(b, str):
        b = b.encode("latin-1")
    return b.hex() if b else "-"


def unhex(s):
    return b"" if s == "-" else bytes.fromhex(s)
