#!/bin/bash
# mutest.sh <patch.diff> <Cxx> [more Cxx...] — apply a seeded change to /repo, run the checks, undo.
# Patches were made against an older HEAD: use 3-way apply.
P="$1"; shift
cd /repo || exit 2
if ! git apply --3way --whitespace=nowarn "$P" 2>/tmp/mutest_apply.err; then echo "APPLY-FAILED $(head -3 /tmp/mutest_apply.err | tr '\n' ' ')"; git reset -q; git checkout -- . ; exit 3; fi
git reset -q
# the evidence files describe the unchanged tree: keep them out of the way while a changed tree is checked
EVB=$(mktemp -d /tmp/mutest_evidence.XXXXXX); cp -a /verif/evidence/. "$EVB"/ 2>/dev/null
for c in "$@"; do
  out=$(cd /verif && timeout 1200 ./check "$c" --tier quick 2>&1)
  rc=$?
  echo "== $c rc=$rc :: $(echo "$out" | grep -c '^VIOLATION') violation line(s); $(echo "$out" | grep '^VIOLATION' | head -2 | cut -c1-230)"
  echo "$out" | tail -1
done
git checkout -- . ; git status --short | grep -v _build | head -3
cp -a "$EVB"/. /verif/evidence/ 2>/dev/null; rm -rf "$EVB"
