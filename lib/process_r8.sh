#!/bin/bash
# process_r8.sh <tag> <pid> [extra check ids...] — confirm the sub-agent's mutants in its scratch worktree, run the
# checks against them, store them under /verif/seeded/<tag>-r8-<k>/
TAG="$1"; PID="$2"; shift 2
W=/tmp/mut8_$TAG
for K in 1 2; do
  M=$W/mutants/$K
  [ -f "$M/patch.diff" ] || { echo "$TAG/$K: no patch"; continue; }
  CONF=$(/verif/lib/confirm_mutant.sh $W $K 2>&1 | tail -1)
  echo "$CONF"
  RES=$(/verif/lib/mutest.sh $M/patch.diff $PID "$@" 2>&1 | grep -E "^== |APPLY" | cut -c1-400)
  echo "$RES"
  D=/verif/seeded/$TAG-r8-$K
  mkdir -p $D && cp $M/patch.diff $D/ && cp $M/run.sh $D/ 2>/dev/null; cp $M/demo.cpp $D/ 2>/dev/null; cp $M/meta.json $D/agent_meta.json 2>/dev/null
  python3 - "$D" "$TAG" "$PID" "$CONF" "$RES" <<'PY'
import json,sys
d,tag,pid,conf,res=sys.argv[1:6]
try: am=json.load(open(d+'/agent_meta.json'))
except Exception: am={}
caught = (" rc=1 " in res) and ("VIOLATION" in res)
json.dump({"property":pid,"tag":tag,"summary":am.get("summary"),"needs_to_manifest":am.get("needs_to_manifest"),"files_touched":am.get("files_touched"),
           "made_by":"independent sub-agent given only the property text and a scratch worktree (round 8)",
           "confirmed_by_me":conf,"checks_run":res,"caught":caught}, open(d+'/meta.json','w'), indent=1)
PY
done
