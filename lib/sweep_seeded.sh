#!/bin/bash
# sweep_seeded.sh <glob> — re-run every stored seeded change matching the glob against its property's quick check
# and record the outcome in its meta.json (final_result, caught_by).
cd /verif/seeded || exit 2
for D in $1; do
  [ -f "$D/patch.diff" ] || continue
  PID=$(python3 -c "import json;print(json.load(open('$D/meta.json'))['property'])")
  PATCH=/verif/seeded/$D/patch.diff
  # a change made against an older tree that no longer applies has been re-made against the current one
  [ -f /verif/seeded/$D/patch_ported.diff ] && PATCH=/verif/seeded/$D/patch_ported.diff
  RES=$(/verif/lib/mutest.sh $PATCH $PID 2>&1 | grep -E "^== |APPLY" | cut -c1-500)
  echo "$D :: $RES"
  python3 - "$D" "$RES" <<'PY'
import json,sys,re
d,res=sys.argv[1:3]
m=json.load(open(d+'/meta.json'))
v=" rc=1 " in res and "VIOLATION" in res
nfi="no-failing-input-found" in res and not re.search(r"VIOLATION[^\n]*#", res)
m["final_result"]="caught with a failing input" if v and not nfi else ("caught, no failing input found (broken proof obligation / correspondence)" if v else "missed")
m["final_check_output"]=res
json.dump(m,open(d+'/meta.json','w'),indent=1)
PY
done
