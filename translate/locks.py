#!/usr/bin/env python3
"""Regenerate coq/Gen_Locks.v from include/via/thread/threadsafe_hash_map.hpp.

For every member function of threadsafe_hash_map and of its bucket_type that has a body, clang's AST
(-ast-dump=json of an explicit instantiation) is walked in evaluation order and reduced to the statements
that matter to the locking protocol:

  LockScoped k t   a lock object of kind k (Sh: std::shared_lock; Ex: lock_guard / unique_lock / scoped_lock)
                   on the mutex of bucket t (Own: this bucket; Elem: the bucket a range-for over buckets_
                   is visiting), declared in the enclosing block and so released at that block's end
  LockKept k t     the same, but moved into a container of locks declared at the function's outermost
                   block (released when the function returns)
  Access w t       an expression naming data_ of bucket t; w = the path is not const qualified
  ForBuckets body  a range-for over buckets_
  Block body       a nested compound statement / the two arms of a branch / a loop body
  Call c name      a call of another member function (c: CSame same object, CBucket buckets_[...], CElem the
                   loop's bucket)
  Ret              a return statement
  Unknown          anything the translator does not understand that touches a mutex or a lock (manual
                   lock()/unlock(), deferred locks, locks taken inside a branch, ...)

The meaning of these statements (M_Locks.v: compile to Acq/Rel/Rd/Wr actions) and the protocol check
over them are in Coq; the translator only reads the shape off the AST."""
import json, os, re, subprocess, sys, tempfile

REPO = os.environ.get("VERIF_REPO", "/repo")
HDR = "include/via/thread/threadsafe_hash_map.hpp"

SH = ("std::shared_lock<",)
EX = ("std::lock_guard<", "std::unique_lock<", "std::scoped_lock<")


def lock_kind(qt):
    qt = qt.replace("const ", "").strip()
    if qt.startswith(SH):
        return "Sh"
    if qt.startswith(EX):
        return "Ex"
    return None


def container_kind(qt):
    m = re.match(r"(?:const )?std::(?:vector|deque|list)<(.*)>$", qt.strip())
    if m:
        return lock_kind(m.group(1).split(",")[0].strip() if "<" not in m.group(1).split(",")[0] else m.group(1))
    return None


def load_docs(txt):
    dec = json.JSONDecoder()
    docs = []
    i = 0
    while i < len(txt):
        while i < len(txt) and txt[i] != "{":
            i += 1
        if i >= len(txt):
            break
        obj, j = dec.raw_decode(txt, i)
        docs.append(obj)
        i = j
    return docs


def kids(n):
    return [c for c in (n.get("inner") or []) if c.get("kind")]


def qt(n):
    return (n.get("type") or {}).get("qualType", "")


def walk(n):
    yield n
    for c in kids(n):
        yield from walk(c)


class Tr:
    def __init__(self, methods, ids):
        self.methods = methods          # names of member functions with bodies
        self.ids = ids                  # AST ids of those member functions

    def base_target(self, n, ctx):
        """target of a MemberExpr (mutex_ / data_): Own, Elem, or None (not understood)"""
        ks = kids(n)
        if not ks:
            return "Own"
        b = ks[0]
        while b.get("kind") in ("ImplicitCastExpr", "ParenExpr"):
            b = kids(b)[0]
        if b.get("kind") == "CXXThisExpr":
            return "Own"
        if b.get("kind") == "DeclRefExpr" and b.get("referencedDecl", {}).get("name") in ctx["elems"]:
            return "Elem"
        return None

    def find_mutex(self, n, ctx):
        for m in walk(n):
            if m.get("kind") == "MemberExpr" and m.get("name") == "mutex_":
                return self.base_target(m, ctx)
        return "none"

    def has_lock_stuff(self, stmts):
        for s in stmts:
            if s[0] in ("LockScoped", "LockKept", "Unknown"):
                return True
            if s[0] in ("Block", "ForBuckets") and self.has_lock_stuff(s[1]):
                return True
            if s[0] == "Call":
                return True      # the callee may lock
        return False

    def expr(self, n, ctx):
        """statements of an expression / statement node, in evaluation order"""
        k = n.get("kind")
        out = []
        if k in ("FullComment", "ParmVarDecl") or k is None:
            return out
        if k == "CompoundStmt":
            body = []
            for c in kids(n):
                body += self.expr(c, dict(ctx, top=False))
            return [("Block", body)]
        if k == "DeclStmt":
            for c in kids(n):
                out += self.expr(c, ctx)
            return out
        if k == "VarDecl":
            t = qt(n)
            lk = lock_kind(t)
            if lk:
                tgt = self.find_mutex(n, ctx)
                if tgt in ("Own", "Elem") and "defer_lock" not in json.dumps(n) and "try_to_lock" not in json.dumps(n):
                    return [("LockScoped", lk, tgt)]
                return [("Unknown", "lock variable %s" % n.get("name"))]
            ck = container_kind(t)
            if ck:
                if ctx.get("fn_top"):
                    ctx["containers"][n.get("name")] = ck
                    return []
                return [("Unknown", "lock container %s not at function scope" % n.get("name"))]
            for c in kids(n):
                out += self.expr(c, ctx)
            return out
        if k == "CXXForRangeStmt":
            ks = kids(n)
            # children: [init?] range-decl begin end cond inc loopvar body
            rng = None
            loopvar = None
            body = ks[-1]
            for c in ks[:-1]:
                if c.get("kind") == "DeclStmt":
                    for v in kids(c):
                        if v.get("kind") == "VarDecl" and v.get("name", "").startswith("__range"):
                            rng = v
                        elif v.get("kind") == "VarDecl" and not v.get("name", "").startswith("__"):
                            loopvar = v
            over_buckets = False
            if rng is not None:
                for m in walk(rng):
                    if m.get("kind") == "MemberExpr" and m.get("name") == "buckets_":
                        over_buckets = True
            if over_buckets and loopvar is not None:
                c2 = dict(ctx, elems=ctx["elems"] | {loopvar.get("name")}, fn_top=False)
                b = self.expr(body, c2)
                if len(b) == 1 and b[0][0] == "Block":
                    b = b[0][1]
                return [("ForBuckets", b)]
            pre = self.expr(rng, ctx) if rng is not None else []
            b = self.expr(body, dict(ctx, fn_top=False))
            inner = pre + b
            if self.has_lock_stuff(b):
                return pre + [("Unknown", "lock inside a loop that is not over buckets_")]
            return [("Block", inner)] if inner else []
        if k in ("IfStmt", "ConditionalOperator", "WhileStmt", "ForStmt", "DoStmt", "SwitchStmt"):
            ks = kids(n)
            parts = [self.expr(c, dict(ctx, fn_top=False)) for c in ks]
            flat = [s for p in parts for s in p]
            # the condition is parts[0]; any lock taken in an arm is not understood
            arms = [s for p in parts[1:] for s in p] if k != "ConditionalOperator" else flat
            if any(s[0] in ("LockScoped", "LockKept", "Unknown") for s in self.flatten(arms)):
                return [("Unknown", "lock inside %s" % k)]
            return flat
        if k == "ReturnStmt":
            for c in kids(n):
                out += self.expr(c, ctx)
            return out + [("Ret",)]
        if k == "LambdaExpr":
            return []            # a comparator; its body does not run here
        if k == "MemberExpr":
            name = n.get("name")
            if name == "data_":
                tgt = self.base_target(n, ctx)
                if tgt is None:
                    return [("Unknown", "data_ of an unrecognised bucket")]
                w = not qt(n).strip().startswith("const ")
                return [("Access", w, tgt)]
            if name == "mutex_":
                return [("Unknown", "mutex_ used outside a lock object")]
        if k == "CXXMemberCallExpr":
            ks = kids(n)
            callee = ks[0] if ks else None
            while callee is not None and callee.get("kind") in ("ImplicitCastExpr", "ParenExpr"):
                callee = kids(callee)[0]
            if callee is not None and callee.get("kind") == "MemberExpr":
                cname = callee.get("name")
                cb = kids(callee)
                base = cb[0] if cb else None
                while base is not None and base.get("kind") in ("ImplicitCastExpr", "ParenExpr"):
                    base = kids(base)[0]
                # locks.push_back(lock(elem.mutex_))
                if base is not None and base.get("kind") == "DeclRefExpr" and \
                        base.get("referencedDecl", {}).get("name") in ctx["containers"]:
                    cont = base["referencedDecl"]["name"]
                    if cname in ("push_back", "emplace_back"):
                        tgt = self.find_mutex(n, ctx)
                        if tgt in ("Own", "Elem"):
                            return [("LockKept", ctx["containers"][cont], tgt)]
                        return [("Unknown", "%s.%s without a mutex" % (cont, cname))]
                    if cname in ("reserve", "size", "capacity", "empty"):
                        return []
                    return [("Unknown", "%s.%s on a lock container" % (cont, cname))]
                # lock()/unlock() by hand
                if cname in ("lock", "unlock", "lock_shared", "unlock_shared", "try_lock", "try_lock_shared",
                             "release", "swap") and base is not None and \
                        (lock_kind(qt(base)) or "shared_mutex" in qt(base) or "mutex" in qt(base)):
                    return [("Unknown", "manual %s()" % cname)]
                if cname in self.methods and callee.get("referencedMemberDecl") in self.ids:
                    args = []
                    for c in ks[1:]:
                        args += self.expr(c, ctx)
                    if base is None or base.get("kind") == "CXXThisExpr":
                        return args + [("Call", "CSame", cname)]
                    if base.get("kind") == "DeclRefExpr" and base.get("referencedDecl", {}).get("name") in ctx["elems"]:
                        return args + [("Call", "CElem", cname)]
                    if any(m.get("kind") == "MemberExpr" and m.get("name") == "buckets_" for m in walk(base)):
                        idx = []
                        for c in kids(base):
                            idx += self.expr(c, ctx)
                        idx = [s for s in idx if s[0] != "Access"]
                        return idx + args + [("Call", "CBucket", cname)]
                    return args + [("Unknown", "call of %s on an unrecognised object" % cname)]
        # a temporary lock object that is neither a variable nor kept in a container
        if k in ("CXXConstructExpr", "CXXTemporaryObjectExpr", "CXXFunctionalCastExpr") and lock_kind(qt(n)):
            tgt = self.find_mutex(n, ctx)
            if tgt in ("Own", "Elem"):
                return [("Block", [("LockScoped", lock_kind(qt(n)), tgt)])]
            if tgt == "none":
                return []        # a move/copy of an existing lock object
            return [("Unknown", "temporary lock")]
        for c in kids(n):
            out += self.expr(c, ctx)
        return out

    def flatten(self, stmts):
        for s in stmts:
            yield s
            if s[0] in ("Block", "ForBuckets"):
                yield from self.flatten(s[1])

    def method(self, m):
        body = None
        for c in kids(m):
            if c.get("kind") == "CompoundStmt":
                body = c
        ctx = {"elems": frozenset(), "containers": {}, "fn_top": True}
        out = []
        for c in kids(body):
            out += self.expr(c, ctx)
        return out


def coq_stmt(s):
    if s[0] == "LockScoped":
        return "LockScoped %s %s" % (s[1], s[2])
    if s[0] == "LockKept":
        return "LockKept %s %s" % (s[1], s[2])
    if s[0] == "Access":
        return "Access %s %s" % ("true" if s[1] else "false", s[2])
    if s[0] == "ForBuckets":
        return "ForBuckets [%s]" % "; ".join(coq_stmt(x) for x in s[1])
    if s[0] == "Block":
        return "Block [%s]" % "; ".join(coq_stmt(x) for x in s[1])
    if s[0] == "Call":
        return 'Call %s "%s"' % (s[1], s[2])
    if s[0] == "Ret":
        return "Ret"
    return "Unknown"


def main(out_path):
    hdr = os.path.join(REPO, HDR)
    if not os.path.exists(hdr):
        print("TRANSLATE-ERROR locks: %s missing" % HDR)
        return 2
    with tempfile.TemporaryDirectory(prefix="verif_locks_") as td:
        tu = os.path.join(td, "tu.cpp")
        open(tu, "w").write('#include "via/thread/threadsafe_hash_map.hpp"\n'
                            "template class via::thread::threadsafe_hash_map<int, int>;\n")
        p = subprocess.run(["clang++", "-std=c++17", "-I" + os.path.join(REPO, "include"), "-fsyntax-only",
                            "-Xclang", "-ast-dump=json", "-Xclang", "-ast-dump-filter=threadsafe_hash_map", tu],
                           stdout=subprocess.PIPE, stderr=subprocess.PIPE, text=True)
        if p.returncode != 0:
            print("TRANSLATE-ERROR locks: clang failed: " + p.stderr[-800:])
            return 2
        docs = load_docs(p.stdout)
    spec = [d for d in docs if d.get("kind") == "ClassTemplateSpecializationDecl"]
    if not spec:
        print("TRANSLATE-ERROR locks: no instantiation in the AST")
        return 2
    spec = spec[0]
    bucket = None
    for c in kids(spec):
        if c.get("kind") == "CXXRecordDecl" and c.get("name") == "bucket_type" and c.get("inner"):
            bucket = c
    if bucket is None:
        print("TRANSLATE-ERROR locks: bucket_type not found")
        return 2

    def methods_of(rec):
        ms = []
        access = "private" if rec.get("tagUsed") == "class" else "public"
        for c in kids(rec):
            if c.get("kind") == "AccessSpecDecl":
                access = c.get("access", access)
            if c.get("kind") == "CXXMethodDecl" and not c.get("isImplicit") and \
                    any(x.get("kind") == "CompoundStmt" for x in kids(c)) and not c.get("name", "").startswith("operator"):
                ms.append((c.get("name"), access, c))
        return ms

    bm = methods_of(bucket)
    mm = methods_of(spec)
    names = {n for n, _, _ in bm} | {n for n, _, _ in mm}
    tr = Tr(names, {m.get("id") for _, _, m in bm + mm})
    L = ["(* GENERATED by translate/locks.py from %s — do not edit. *)" % HDR,
         "From Coq Require Import List String.", "From Via Require Import M_Locks.", "Import ListNotations.",
         "Local Open Scope string_scope.", ""]
    notes = []
    entries = []
    for scope, ms in (("bucket", bm), ("map", mm)):
        for name, access, m in ms:
            body = tr.method(m)
            for s in tr.flatten(body):
                if s[0] == "Unknown":
                    notes.append("(* %s::%s: not understood: %s *)" % (scope, name, s[1]))
            L.append("Definition %s_%s : list stmt := [%s]." % (scope[0], name, "; ".join(coq_stmt(s) for s in body)))
            entries.append((scope, name, access))
    L += notes
    L.append("")
    L.append("Definition methods : list (string * list stmt) := [%s]." %
             "; ".join('("%s", %s_%s)' % (n, sc[0], n) for sc, n, _ in entries))
    L.append("Definition api : list string := [%s]." %
             "; ".join('"%s"' % n for sc, n, a in entries if sc == "map" and a == "public"))
    src = open(hdr, encoding="utf-8", errors="replace").read()
    m = re.search(r"unsigned\s+num_buckets\s*=\s*(\d+)", src)
    L.append("Definition default_buckets : nat := %s." % (m.group(1) if m else "0"))
    txt = "\n".join(L) + "\n"
    if not os.path.exists(out_path) or open(out_path).read() != txt:
        open(out_path, "w").write(txt)
    return 0


if __name__ == "__main__":
    out = sys.argv[1] if len(sys.argv) > 1 else os.path.join(os.path.dirname(__file__), "../coq/Gen_Locks.v")
    sys.exit(main(out))
