#!/usr/bin/env python3
"""Regenerate coq/Gen_Access.v: how the thread-pool build (HTTP_THREAD_SAFE) binds work to executors.

clang's AST of comms::server<tcp_adaptor> and http_server<tcp_adaptor, std::string>, compiled with
HTTP_THREAD_SAFE, is reduced to the facts the pool model (M_Pool.v) is parameterised by:

  accept_on_strand        every async_accept call passes a strand (make_strand) as the new socket's executor
  collections_concurrent  connections_ and http_connections_ are thread::threadsafe_hash_map
  connected_path_arms_last  in connection::handshake_callback the success branch ends with enable_reception()
  executor_rebinds        number of bind_executor / post / dispatch / defer calls in the library's classes
                          (a completion handler that is not rebound runs on its socket's executor)
  connection_sweeps       (function, callee, direct|deferred): calls made on every connection of a collection
                          from inside one function, i.e. on whatever thread runs that function
  shared_writes           (function, member): assignments to plain (non-concurrent) data members of the two
                          server classes outside constructors and the configuration setters
"""
import json, os, re, subprocess, sys, tempfile

REPO = os.environ.get("VERIF_REPO", "/repo")


def load_docs(txt):
    dec = json.JSONDecoder()
    docs, i = [], 0
    while i < len(txt):
        while i < len(txt) and txt[i] != "{":
            i += 1
        if i >= len(txt):
            break
        obj, j = dec.raw_decode(txt, i)
        docs.append(obj)
        i = j
    return docs


def kids(n):
    return [c for c in (n.get("inner") or []) if c.get("kind")]


def walk(n, inside_lambda=False):
    yield n, inside_lambda
    il = inside_lambda or n.get("kind") == "LambdaExpr"
    for c in kids(n):
        yield from walk(c, il)


def qt(n):
    return (n.get("type") or {}).get("qualType", "")


def dump(filter_name, tu):
    p = subprocess.run(["clang++", "-std=c++17", "-I" + os.path.join(REPO, "include"), "-fsyntax-only",
                        "-Xclang", "-ast-dump=json", "-Xclang", "-ast-dump-filter=" + filter_name, tu],
                       stdout=subprocess.PIPE, stderr=subprocess.PIPE, text=True)
    if p.returncode != 0:
        raise RuntimeError("clang failed: " + p.stderr[-800:])
    return [d for d in load_docs(p.stdout) if d.get("kind") == "ClassTemplateSpecializationDecl"]


def methods_of(rec):
    for c in kids(rec):
        if c.get("kind") in ("CXXMethodDecl", "CXXConstructorDecl", "CXXDestructorDecl") and not c.get("isImplicit") \
                and any(x.get("kind") == "CompoundStmt" for x in kids(c)):
            yield c


def callee_name(call):
    ks = kids(call)
    if not ks:
        return None
    c = ks[0]
    while c.get("kind") in ("ImplicitCastExpr", "ParenExpr") and kids(c):
        c = kids(c)[0]
    if c.get("kind") == "MemberExpr":
        return c.get("name")
    if c.get("kind") == "DeclRefExpr":
        return (c.get("referencedDecl") or {}).get("name")
    return None


def mentions_var(n, names):
    for m, _ in walk(n):
        if m.get("kind") == "DeclRefExpr" and (m.get("referencedDecl") or {}).get("name") in names:
            return True
    return False


def sweeps_in(method, cls):
    """calls made on the loop variable of a range-for over a collection of connections"""
    out = []
    for n, _ in walk(method):
        if n.get("kind") != "CXXForRangeStmt":
            continue
        ks = kids(n)
        loopvar = None
        for c in ks[:-1]:
            if c.get("kind") == "DeclStmt":
                for v in kids(c):
                    if v.get("kind") == "VarDecl" and not v.get("name", "").startswith("__"):
                        loopvar = v
        if loopvar is None or "connection" not in qt(loopvar):
            continue
        body = ks[-1]
        for m, in_lambda in walk(body):
            if m.get("kind") in ("CXXMemberCallExpr", "CXXOperatorCallExpr", "CallExpr"):
                if not mentions_var(m, {loopvar.get("name")}):
                    continue
                name = callee_name(m)
                if m.get("kind") == "CXXOperatorCallExpr":
                    # std::function call: operator() on a data member
                    name = None
                    ks2 = kids(m)
                    if ks2 and callee_name(m) == "operator()":
                        for f, _ in walk(ks2[1] if len(ks2) > 1 else m):
                            if f.get("kind") == "MemberExpr" and f.get("name", "").endswith("_"):
                                name = f.get("name")
                                break
                if name and name not in ("operator->", "operator*", "get", "second", "first", "lock"):
                    out.append((cls + "::" + method.get("name", "?"), name, "deferred" if in_lambda else "direct"))
    return out


def writes_in(method, fields):
    out = set()
    for n, _ in walk(method):
        if n.get("kind") in ("BinaryOperator", "CompoundAssignOperator") and n.get("opcode", "").endswith("=") \
                and n.get("opcode") not in ("==", "!=", "<=", ">="):
            ks = kids(n)
            if ks:
                lhs = ks[0]
                while lhs.get("kind") in ("ImplicitCastExpr", "ParenExpr") and kids(lhs):
                    lhs = kids(lhs)[0]
                if lhs.get("kind") == "MemberExpr" and lhs.get("name") in fields:
                    base = kids(lhs)
                    if not base or base[0].get("kind") == "CXXThisExpr":
                        out.add(lhs.get("name"))
        if n.get("kind") == "UnaryOperator" and n.get("opcode") in ("++", "--"):
            ks = kids(n)
            if ks and ks[0].get("kind") == "MemberExpr" and ks[0].get("name") in fields:
                out.add(ks[0].get("name"))
    return out


def main(out_path):
    for rel in ("include/via/comms/server.hpp", "include/via/http_server.hpp", "include/via/comms/connection.hpp",
                "include/via/comms/tcp_adaptor.hpp"):
        if not os.path.exists(os.path.join(REPO, rel)):
            print("TRANSLATE-ERROR access: %s missing" % rel)
            return 2
    with tempfile.TemporaryDirectory(prefix="verif_access_") as td:
        tu = os.path.join(td, "tu.cpp")
        open(tu, "w").write('#define HTTP_THREAD_SAFE\n#include "via/comms/tcp_adaptor.hpp"\n#include "via/http_server.hpp"\n'
                            "template class via::comms::connection<via::comms::tcp_adaptor>;\n"
                            "template class via::comms::server<via::comms::tcp_adaptor>;\n"
                            "template class via::http_server<via::comms::tcp_adaptor, std::string>;\n")
        try:
            hs = [d for d in dump("http_server", tu) if d.get("name") == "http_server"]
            cs = [d for d in dump("via::comms::server", tu) if d.get("name") == "server"]
            cn = [d for d in dump("via::comms::connection", tu) if d.get("name") == "connection"]
        except RuntimeError as e:
            print("TRANSLATE-ERROR access: %s" % e)
            return 2
    if not hs or not cs or not cn:
        print("TRANSLATE-ERROR access: instantiations not found in the AST (%d %d %d)" % (len(hs), len(cs), len(cn)))
        return 2
    hs, cs, cn = hs[0], cs[0], cn[0]

    # 1. async_accept gets a strand
    accepts = []
    for m in methods_of(cs):
        for n, _ in walk(m):
            if n.get("kind") == "CXXMemberCallExpr" and callee_name(n) == "async_accept":
                args = kids(n)[1:]
                accepts.append(any("strand<" in qt(a) for a in args[:1]))
    accept_on_strand = bool(accepts) and all(accepts)

    # 2. collection types
    def field_types(rec):
        return {c.get("name"): qt(c) for c in kids(rec) if c.get("kind") == "FieldDecl"}
    fs, fh = field_types(cs), field_types(hs)

    def desugared(rec, name):
        for c in kids(rec):
            if c.get("kind") == "FieldDecl" and c.get("name") == name:
                t = c.get("type") or {}
                return t.get("desugaredQualType", "") + " " + t.get("qualType", "")
        return ""
    conc = "threadsafe_hash_map" in desugared(cs, "connections_") and "threadsafe_hash_map" in desugared(hs, "http_connections_")

    # 3. executor rebinds
    rebinds = 0
    for rec in (hs, cs, cn):
        for m in methods_of(rec):
            for n, _ in walk(m):
                if n.get("kind") in ("CallExpr", "CXXMemberCallExpr") and callee_name(n) in ("bind_executor", "post", "dispatch", "defer"):
                    rebinds += 1

    # 4. sweeps over connections
    sweeps = []
    for cls, rec in (("server", cs), ("http_server", hs)):
        for m in methods_of(rec):
            sweeps += sweeps_in(m, cls)
    sweeps = sorted(set(sweeps))

    # 5. writes to plain shared members outside constructors / configuration setters
    writes = []
    for cls, rec, fields in (("server", cs, fs), ("http_server", hs, fh)):
        plain = {f for f, t in fields.items() if "threadsafe_hash_map" not in t and "atomic" not in t}
        for m in methods_of(rec):
            name = m.get("name", "")
            if m.get("kind") != "CXXMethodDecl" or name.startswith("set_") or name.endswith("_event") or \
                    name.endswith("_handler") and name.startswith("set"):
                continue
            for f in sorted(writes_in(m, plain)):
                writes.append((cls + "::" + name, f))
    writes = sorted(set(writes))

    # 6. the connected path starts reception as its last action
    arms_last = False
    for m in methods_of(cn):
        if m.get("name") != "handshake_callback":
            continue
        for n, _ in walk(m):
            if n.get("kind") != "CompoundStmt":
                continue
            stmts = kids(n)
            sets_connected = any(x.get("kind") == "BinaryOperator" and x.get("opcode") == "=" and
                                 any(y.get("kind") == "MemberExpr" and y.get("name") == "connected_" for y, _ in walk(x))
                                 for x in stmts)
            if sets_connected and stmts:
                last = stmts[-1]
                while last.get("kind") in ("ExprWithCleanups",) and kids(last):
                    last = kids(last)[0]
                arms_last = last.get("kind") == "CXXMemberCallExpr" and callee_name(last) == "enable_reception"

    def b(x):
        return "true" if x else "false"
    L = ["(* GENERATED by translate/access.py (clang AST, -DHTTP_THREAD_SAFE) — do not edit. *)",
         "From Coq Require Import List String.", "Import ListNotations.", "Local Open Scope string_scope.", "",
         "Definition accept_on_strand : bool := %s." % b(accept_on_strand),
         "Definition collections_concurrent : bool := %s." % b(conc),
         "Definition executor_rebinds : nat := %d." % rebinds,
         "Definition connected_path_arms_last : bool := %s." % b(arms_last),
         "Definition connection_sweeps : list (string * string * string) := [%s]." %
         "; ".join('("%s", "%s", "%s")' % s for s in sweeps),
         "Definition shared_writes : list (string * string) := [%s]." % "; ".join('("%s", "%s")' % w for w in writes)]
    txt = "\n".join(L) + "\n"
    if not os.path.exists(out_path) or open(out_path).read() != txt:
        open(out_path, "w").write(txt)
    return 0


if __name__ == "__main__":
    out = sys.argv[1] if len(sys.argv) > 1 else os.path.join(os.path.dirname(__file__), "../coq/Gen_Access.v")
    sys.exit(main(out))
