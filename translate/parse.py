#!/usr/bin/env python3
"""Regenerate coq/Gen_Parse.v (translate/parse.py): the bodies of the character-level parser functions (parse_char) of the line parsers,
read off clang's AST of explicit instantiations and written as terms of the small imperative language of
coq/M_Imp.v.  The translator understands only the constructs listed in M_Imp.v; anything else raises Untranslatable
(the check then reports the broken obligation).  What the statements mean is defined in Coq (M_Imp.exec); that the
hand-written model functions (M_Parse.v) compute the same as the translated source is proved in P_Imp.v."""
import json, os, subprocess, sys, tempfile

REPO = os.environ.get("VERIF_REPO", "/repo")


class Untranslatable(Exception):
    pass


PREDS = {"isupper": "PUpper", "isblank": "PBlank", "isdigit": "PDigit", "isxdigit": "PXdigit", "is_end_of_line": "PEol",
         "is_token": "PToken", "iscntrl": "PCntrl", "isalpha": "PAlpha"}
CMPS = {">": "CGt", "<": "CLt", ">=": "CGe", "<=": "CLe", "==": "CEq", "!=": "CNe"}


def load_docs(txt):
    dec = json.JSONDecoder(); docs = []; i = 0
    while i < len(txt):
        while i < len(txt) and txt[i] != "{":
            i += 1
        if i >= len(txt):
            break
        o, j = dec.raw_decode(txt, i); docs.append(o); i = j
    return docs


def kids(n):
    return [c for c in (n.get("inner") or []) if isinstance(c, dict) and c.get("kind")]


def walk(n):
    yield n
    for c in kids(n):
        yield from walk(c)


def strip(n):
    while n.get("kind") in ("ImplicitCastExpr", "ParenExpr", "ConstantExpr", "ExprWithCleanups", "CXXFunctionalCastExpr", "CStyleCastExpr", "CXXStaticCastExpr"):
        n = kids(n)[0]
    return n


class Tr:
    def __init__(self, cfg, enum_index, consts=None):
        self.cfg, self.enum, self.consts = cfg, enum_index, consts or {}

    def member(self, n):
        n = strip(n)
        if n.get("kind") == "MemberExpr" and kids(n) and strip(kids(n)[0]).get("kind") == "CXXThisExpr":
            return n.get("name")
        return None

    def is_c(self, n):
        n = strip(n)
        return n.get("kind") == "DeclRefExpr" and n.get("referencedDecl", {}).get("name") == self.cfg["param"]

    def nexp(self, n):
        n = strip(n)
        k = n.get("kind")
        if k in ("IntegerLiteral", "CharacterLiteral"):
            return "(NLit %d)" % int(n["value"])
        if k == "SubstNonTypeTemplateParmExpr":
            name = [c for c in (n.get("inner") or []) if c.get("kind") == "NonTypeTemplateParmDecl"][0]["name"]
            if name not in self.cfg["limits"]:
                raise Untranslatable("template parameter " + name)
            return "(NLim %d%%nat)" % self.cfg["limits"].index(name)
        if self.is_c(n):
            return "NChar"
        m = self.member(n)
        if m is not None:
            if m in self.cfg["nums"]:
                return "(NNum %d%%nat)" % self.cfg["nums"].index(m)
            raise Untranslatable("member used as a number: " + m)
        if k == "CXXBoolLiteralExpr":
            return "(NLit %d)" % (1 if n.get("value") else 0)
        if k == "DeclRefExpr" and n.get("referencedDecl", {}).get("name") in self.consts:
            return "(NLit %d)" % self.consts[n["referencedDecl"]["name"]]
        if k == "CallExpr":
            f = strip(kids(n)[0]); name = f.get("referencedDecl", {}).get("name"); args = kids(n)[1:]
            if name == "tolower" and len(args) == 1:
                return "(NLower %s)" % self.nexp(args[0])
            if name == "read_digit" and len(args) == 1 and self.is_c(args[0]):
                return "(NSub NChar (NLit 48))"
            if name == "from_hex_string" and len(args) == 1:
                for m in walk(args[0]):
                    mm = self.member(m)
                    if mm in self.cfg["strs"]:
                        return "(NFromHex %d%%nat)" % self.cfg["strs"].index(mm)
            raise Untranslatable("call of %s in a numeric expression" % name)
        if k == "CXXMemberCallExpr":
            callee = kids(n)[0]
            if callee.get("kind") == "MemberExpr" and len(kids(n)) == 1 and strip(kids(callee)[0]).get("kind") == "CXXThisExpr" \
                    and callee.get("name") in getattr(self, "inline", {}):
                return self.inline[callee.get("name")]      # a call of an accessor of the same class, already translated
            if callee.get("kind") == "MemberExpr" and callee.get("name") == "size" and len(kids(n)) == 1:
                obj = self.member(kids(callee)[0])
                if obj in self.cfg["strs"]:
                    return "(NSize %d%%nat)" % self.cfg["strs"].index(obj)
            raise Untranslatable("member call in a numeric expression")
        if k == "UnaryOperator" and n.get("opcode") == "++" and not n.get("isPostfix"):
            m = self.member(kids(n)[0])
            if m in self.cfg["nums"]:
                return "(NPreInc %d%%nat)" % self.cfg["nums"].index(m)
            raise Untranslatable("++ on " + str(m))
        if k == "BinaryOperator" and n.get("opcode") in ("+", "-", "*"):
            a, b = kids(n)
            return "(%s %s %s)" % ({"+": "NAdd", "-": "NSub", "*": "NMul"}[n["opcode"]], self.nexp(a), self.nexp(b))
        raise Untranslatable("numeric expression " + str(k))

    def bexp(self, n):
        n = strip(n)
        k = n.get("kind")
        if k == "CXXBoolLiteralExpr":
            return "(BConst %s)" % ("true" if n.get("value") else "false")
        if k == "SubstNonTypeTemplateParmExpr":
            for m in walk(n):
                if m.get("kind") == "CXXBoolLiteralExpr":
                    return "(BConst %s)" % ("true" if m.get("value") else "false")
            raise Untranslatable("template parameter used as a condition")
        if k == "CallExpr":
            f = strip(kids(n)[0])
            name = f.get("referencedDecl", {}).get("name")
            args = kids(n)[1:]
            if name in PREDS and len(args) == 1 and self.is_c(args[0]):
                return "(BPred %s)" % PREDS[name]
            raise Untranslatable("call of " + str(name))
        if k == "UnaryOperator" and n.get("opcode") == "!":
            return "(BNot %s)" % self.bexp(kids(n)[0])
        if k == "BinaryOperator" and n.get("opcode") in ("&&", "||"):
            a, b = kids(n)
            return "(%s %s %s)" % ("BAnd" if n["opcode"] == "&&" else "BOr", self.bexp(a), self.bexp(b))
        if k == "BinaryOperator" and n.get("opcode") in CMPS:
            a, b = kids(n)
            sa, sb = strip(a), strip(b)
            if n["opcode"] == "==":
                for x, y in ((sa, sb), (sb, sa)):
                    if x.get("kind") == "CharacterLiteral" and self.is_c(y):
                        return "(BCharIs %d)" % int(x["value"])
            return "(BCmp %s %s %s)" % (CMPS[n["opcode"]], self.nexp(a), self.nexp(b))
        if k == "CXXMemberCallExpr":
            callee = kids(n)[0]
            if callee.get("kind") == "MemberExpr" and callee.get("name") == "empty":
                obj = self.member(kids(callee)[0])
                if obj in self.cfg["strs"]:
                    return "(BEmpty %d%%nat)" % self.cfg["strs"].index(obj)
            raise Untranslatable("member call in a condition")
        m = self.member(n)
        if m is not None and m in self.cfg["nums"]:
            return "(BFlag %d%%nat)" % self.cfg["nums"].index(m)
        raise Untranslatable("condition " + str(k))

    def seq(self, l):
        l = [x for x in l if x != "SSkip"]
        if not l:
            return "SSkip"
        out = l[-1]
        for x in reversed(l[:-1]):
            out = "(SSeq %s %s)" % (x, out)
        return out

    def stmt(self, n):
        k = n.get("kind")
        if k == "CompoundStmt":
            return self.seq([self.stmt(c) for c in kids(n)])
        if k in ("NullStmt", "DeclStmt"):
            return "SSkip"
        if k == "AttributedStmt":
            return self.seq([self.stmt(c) for c in kids(n) if c.get("kind") != "FallThroughAttr"])
        if k == "IfStmt":
            ks = kids(n)
            if n.get("isConstexpr"):
                cond = ks[0]
                val = None
                for m in walk(cond):
                    if m.get("kind") == "ConstantExpr" and "value" in m:
                        val = m["value"]; break
                    if m.get("kind") == "CXXBoolLiteralExpr":
                        val = "true" if m.get("value") else "false"; break
                if val is None:
                    raise Untranslatable("if constexpr without a value")
                taken = str(val).lower() in ("true", "1")
                branches = ks[1:]
                if n.get("hasElse"):
                    return self.stmt(branches[0] if taken else branches[1]) if len(branches) == 2 else self.stmt(branches[0])
                return self.stmt(branches[0]) if taken and branches else "SSkip"
            cond, then = ks[0], ks[1]
            els = ks[2] if len(ks) > 2 else None
            return "(SIf %s %s %s)" % (self.bexp(cond), self.stmt(then), self.stmt(els) if els is not None else "SSkip")
        if k == "ReturnStmt":
            v = strip(kids(n)[0])
            if v.get("kind") == "CXXBoolLiteralExpr":
                return "(SReturn %s)" % ("true" if v.get("value") else "false")
            raise Untranslatable("return of a non-literal")
        if k == "BreakStmt":
            return "SBreak"
        if k == "BinaryOperator" and n.get("opcode") == "=":
            lhs, rhs = kids(n)
            m = self.member(lhs)
            if m == self.cfg["state"]:
                r = strip(rhs)
                name = r.get("referencedDecl", {}).get("name")
                if name not in self.enum:
                    raise Untranslatable("state_ = " + str(name))
                return "(SState %d%%nat)" % self.enum[name]
            if m in self.cfg["nums"]:
                return "(SNum %d%%nat %s)" % (self.cfg["nums"].index(m), self.nexp(rhs))
            raise Untranslatable("assignment to " + str(m))
        if k == "CompoundAssignOperator" and n.get("opcode") in ("+=", "-=", "*="):
            lhs, rhs = kids(n)
            m = self.member(lhs)
            if m in self.cfg["nums"]:
                i = self.cfg["nums"].index(m)
                op = {"+=": "NAdd", "-=": "NSub", "*=": "NMul"}[n["opcode"]]
                return "(SNum %d%%nat (%s (NNum %d%%nat) %s))" % (i, op, i, self.nexp(rhs))
            raise Untranslatable("compound assignment to " + str(m))
        if k == "CXXMemberCallExpr":
            callee = kids(n)[0]
            if callee.get("kind") == "MemberExpr" and callee.get("name") == "clear" and len(kids(n)) == 1:
                obj = self.member(kids(callee)[0])
                if obj in self.cfg["strs"]:
                    return "(SClear %d%%nat)" % self.cfg["strs"].index(obj)
                raise Untranslatable("clear() of " + str(obj))
            if callee.get("kind") == "MemberExpr" and callee.get("name") == "push_back":
                obj = self.member(kids(callee)[0])
                if obj in self.cfg["strs"]:
                    return "(SPush %d%%nat %s)" % (self.cfg["strs"].index(obj), self.nexp(kids(n)[1]))
            raise Untranslatable("member call statement")
        if k == "UnaryOperator" and n.get("opcode") == "++":
            return "(SEval %s)" % self.nexp(n)
        if k == "SwitchStmt":
            ks = kids(n)
            on = self.member(ks[0])
            if on != self.cfg["state"]:
                raise Untranslatable("switch on " + str(on))
            body = [c for c in ks if c.get("kind") == "CompoundStmt"][0]
            items = []
            for c in kids(body):
                self.switch_item(c, items)
            return "(SSwitch [%s])" % "; ".join(items)
        raise Untranslatable("statement " + str(k))

    def switch_item(self, c, items):
        k = c.get("kind")
        if k == "CaseStmt":
            ks = kids(c)
            lab = strip(ks[0])
            name = lab.get("referencedDecl", {}).get("name")
            if name not in self.enum:
                raise Untranslatable("case label " + str(name))
            sub = ks[-1]
            if sub.get("kind") in ("CaseStmt", "DefaultStmt"):
                items.append("(Some (Some %d%%nat), SSkip)" % self.enum[name])
                self.switch_item(sub, items)
            else:
                items.append("(Some (Some %d%%nat), %s)" % (self.enum[name], self.stmt(sub)))
        elif k == "DefaultStmt":
            sub = kids(c)[-1]
            if sub.get("kind") in ("CaseStmt", "DefaultStmt"):
                items.append("(Some None, SSkip)")
                self.switch_item(sub, items)
            else:
                items.append("(Some None, %s)" % self.stmt(sub))
        else:
            items.append("(None, %s)" % self.stmt(c))



class LTr:
    """the buffer-level parse(iter, end) bodies -> M_Loop.lstmt"""
    def __init__(self, cfg, enum_index):
        self.cfg, self.enum = cfg, enum_index
        self.base = Tr(cfg, enum_index)

    def ref(self, n, name):
        n = strip(n)
        return n.get("kind") == "DeclRefExpr" and n.get("referencedDecl", {}).get("name") == name

    def deref_iter(self, n):
        n = strip(n)
        return n.get("kind") == "UnaryOperator" and n.get("opcode") == "*" and self.ref(kids(n)[0], "iter")

    def enum_const(self, n):
        n = strip(n)
        if n.get("kind") == "DeclRefExpr" and n.get("referencedDecl", {}).get("kind") == "EnumConstantDecl":
            name = n["referencedDecl"]["name"]
            if name in self.enum:
                return self.enum[name]
        return None

    def flag(self, m):
        if m in self.cfg["nums"] and m in self.cfg.get("flags", ("valid_", "fail_")):
            return self.cfg["nums"].index(m)
        raise Untranslatable("bool member " + str(m))

    def lexp(self, n):
        n = strip(n)
        k = n.get("kind")
        if k == "CXXBoolLiteralExpr":
            return "(LConst %s)" % ("true" if n.get("value") else "false")
        if k == "UnaryOperator" and n.get("opcode") == "!":
            return "(LNot %s)" % self.lexp(kids(n)[0])
        if k == "BinaryOperator" and n.get("opcode") in ("&&", "||"):
            a, b = kids(n)
            return "(%s %s %s)" % ("LAnd" if n["opcode"] == "&&" else "LOr", self.lexp(a), self.lexp(b))
        if k == "BinaryOperator" and n.get("opcode") in ("==", "!="):
            a, b = kids(n)
            neg = n["opcode"] == "!="
            if (self.ref(a, "iter") and self.ref(b, "end")) or (self.ref(a, "end") and self.ref(b, "iter")):
                return "LMore" if neg else "(LNot LMore)"
            for x, y in ((a, b), (b, a)):
                e = self.enum_const(x)
                if e is not None and self.base.member(y) == self.cfg["state"]:
                    return ("(LNot (LStateIs %d%%nat))" if neg else "(LStateIs %d%%nat)") % e
            raise Untranslatable("comparison in parse")
        if k == "BinaryOperator" and n.get("opcode") == "=":
            lhs, rhs = kids(n)
            return "(LAssign %d%%nat %s)" % (self.flag(self.base.member(lhs)), self.lexp(rhs))
        if k == "CXXMemberCallExpr":
            callee = kids(n)[0]
            if callee.get("kind") == "MemberExpr" and callee.get("name") == "parse_char" and strip(kids(callee)[0]).get("kind") == "CXXThisExpr":
                args = kids(n)[1:]
                if len(args) == 1 and self.ref(args[0], "c"):
                    return "LCall"
            raise Untranslatable("member call in parse")
        if k == "CallExpr":
            f = strip(kids(n)[0]); name = f.get("referencedDecl", {}).get("name"); args = kids(n)[1:]
            if name in PREDS and len(args) == 1 and self.deref_iter(args[0]):
                return "(LPeek %s)" % PREDS[name]
            raise Untranslatable("call of %s in parse" % name)
        m = self.base.member(n)
        if m is not None:
            return "(LFlag %d%%nat)" % self.flag(m)
        raise Untranslatable("expression in parse: " + str(k))

    def seq(self, l):
        l = [x for x in l if x != "LSkip"]
        if not l:
            return "LSkip"
        out = l[-1]
        for x in reversed(l[:-1]):
            out = "(LSeq %s %s)" % (x, out)
        return out

    def lstmt(self, n):
        k = n.get("kind")
        if k == "CompoundStmt":
            return self.seq([self.lstmt(c) for c in kids(n)])
        if k == "NullStmt":
            return "LSkip"
        if k == "DeclStmt":
            vs = kids(n)
            if len(vs) == 1 and vs[0].get("kind") == "VarDecl" and vs[0].get("name") == "c" and kids(vs[0]):
                init = strip(kids(vs[0])[0])
                if init.get("kind") == "UnaryOperator" and init.get("opcode") == "*":
                    inc = strip(kids(init)[0])
                    if inc.get("kind") == "UnaryOperator" and inc.get("opcode") == "++" and inc.get("isPostfix") and self.ref(kids(inc)[0], "iter"):
                        return "LNext"
            raise Untranslatable("declaration in parse")
        if k == "WhileStmt":
            cond, body = kids(n)
            return "(LWhile %s %s)" % (self.lexp(cond), self.lstmt(body))
        if k == "IfStmt":
            ks = kids(n)
            els = ks[2] if len(ks) > 2 else None
            return "(LIf %s %s %s)" % (self.lexp(ks[0]), self.lstmt(ks[1]), self.lstmt(els) if els is not None else "LSkip")
        if k == "ReturnStmt":
            return "(LReturn %s)" % self.lexp(kids(n)[0])
        if k == "BinaryOperator" and n.get("opcode") == "=":
            lhs, rhs = kids(n)
            m = self.base.member(lhs)
            if m == self.cfg["state"]:
                e = self.enum_const(rhs)
                if e is None:
                    raise Untranslatable("state_ = ? in parse")
                return "(LState %d%%nat)" % e
            return "(LDo %s)" % self.lexp(n)
        if k == "CXXMemberCallExpr":
            callee = kids(n)[0]
            if callee.get("kind") == "MemberExpr" and callee.get("name") == "push_back":
                obj = self.base.member(kids(callee)[0]); arg = strip(kids(n)[1])
                if obj in self.cfg["strs"] and arg.get("kind") == "CharacterLiteral":
                    return "(LPush %d%%nat %d)" % (self.cfg["strs"].index(obj), int(arg["value"]))
            raise Untranslatable("member call statement in parse")
        raise Untranslatable("statement in parse: " + str(k))



class HTr:
    """message_headers::parse(iter, end) -> M_Hdr.hstmt"""
    NUMS = ["valid_", "fail_", "cr_", "length_"]
    LIMITS = ["MAX_HEADER_NUMBER", "MAX_HEADER_LENGTH"]

    def this_member(self, n):
        n = strip(n)
        if n.get("kind") == "MemberExpr" and kids(n) and strip(kids(n)[0]).get("kind") == "CXXThisExpr":
            return n.get("name")
        return None

    def ref(self, n, name):
        n = strip(n)
        return n.get("kind") == "DeclRefExpr" and n.get("referencedDecl", {}).get("name") == name

    def deref_iter(self, n):
        n = strip(n)
        return n.get("kind") == "UnaryOperator" and n.get("opcode") == "*" and self.ref(kids(n)[0], "iter")

    def field_call(self, n):
        """field_.f(...) -> (f, args) or None"""
        n = strip(n)
        if n.get("kind") == "CXXMemberCallExpr":
            callee = kids(n)[0]
            if callee.get("kind") == "MemberExpr" and self.this_member(kids(callee)[0]) == "field_":
                return callee.get("name"), kids(n)[1:]
        return None

    def num(self, m):
        if m in self.NUMS:
            return self.NUMS.index(m)
        raise Untranslatable("message_headers member " + str(m))

    def hnexp(self, n):
        n = strip(n)
        k = n.get("kind")
        if k == "SubstNonTypeTemplateParmExpr":
            name = [c for c in (n.get("inner") or []) if c.get("kind") == "NonTypeTemplateParmDecl"][0]["name"]
            if name in self.LIMITS:
                return "(HLim %d%%nat)" % self.LIMITS.index(name)
            raise Untranslatable("template parameter " + name)
        m = self.this_member(n)
        if m is not None:
            return "(HNum %d%%nat)" % self.num(m)
        fc = self.field_call(n)
        if fc and fc[0] == "length" and not fc[1]:
            return "HFieldLength"
        if k == "CXXMemberCallExpr":
            callee = kids(n)[0]
            if callee.get("kind") == "MemberExpr" and callee.get("name") == "size" and self.this_member(kids(callee)[0]) == "fields_":
                return "HFieldsSize"
        raise Untranslatable("numeric expression in message_headers::parse: " + str(k))

    def hexp(self, n):
        n = strip(n)
        k = n.get("kind")
        if k == "CXXBoolLiteralExpr":
            return "(HConst %s)" % ("true" if n.get("value") else "false")
        if k == "UnaryOperator" and n.get("opcode") == "!":
            return "(HNot %s)" % self.hexp(kids(n)[0])
        if k == "BinaryOperator" and n.get("opcode") in ("&&", "||"):
            a, b = kids(n)
            return "(%s %s %s)" % ("HAnd" if n["opcode"] == "&&" else "HOr", self.hexp(a), self.hexp(b))
        if k == "BinaryOperator" and n.get("opcode") in ("==", "!="):
            a, b = kids(n)
            neg = n["opcode"] == "!="
            if (self.ref(a, "iter") and self.ref(b, "end")) or (self.ref(a, "end") and self.ref(b, "iter")):
                return "HMore" if neg else "HAtEnd"
            for x, y in ((a, b), (b, a)):
                if strip(x).get("kind") == "CharacterLiteral" and self.deref_iter(y):
                    e = "(HPeekIs %d)" % int(strip(x)["value"])
                    return "(HNot %s)" % e if neg else e
            raise Untranslatable("comparison in message_headers::parse")
        if k == "BinaryOperator" and n.get("opcode") == ">":
            a, b = kids(n)
            return "(HGt %s %s)" % (self.hnexp(a), self.hnexp(b))
        if k == "CallExpr":
            f = strip(kids(n)[0]); name = f.get("referencedDecl", {}).get("name"); args = kids(n)[1:]
            if name in PREDS and len(args) == 1 and self.deref_iter(args[0]):
                return "(HPeek %s)" % PREDS[name]
            raise Untranslatable("call of %s in message_headers::parse" % name)
        fc = self.field_call(n)
        if fc:
            name, args = fc
            if name == "started" and not args:
                return "HFieldStarted"
            if name == "fail" and not args:
                return "HFieldFail"
            if name == "parse" and len(args) == 2 and self.ref(args[0], "iter") and self.ref(args[1], "end"):
                return "HFieldParse"
            raise Untranslatable("field_." + str(name))
        m = self.this_member(n)
        if m is not None:
            return "(HFlag %d%%nat)" % self.num(m)
        raise Untranslatable("expression in message_headers::parse: " + str(k))

    def seq(self, l):
        l = [x for x in l if x != "HSkip"]
        if not l:
            return "HSkip"
        out = l[-1]
        for x in reversed(l[:-1]):
            out = "(HSeq %s %s)" % (x, out)
        return out

    def hstmt(self, n):
        k = n.get("kind")
        if k == "CompoundStmt":
            return self.seq([self.hstmt(c) for c in kids(n)])
        if k == "NullStmt":
            return "HSkip"
        if k == "WhileStmt":
            cond, body = kids(n)
            return "(HWhile %s %s)" % (self.hexp(cond), self.hstmt(body))
        if k == "IfStmt":
            ks = kids(n)
            els = ks[2] if len(ks) > 2 else None
            return "(HIf %s %s %s)" % (self.hexp(ks[0]), self.hstmt(ks[1]), self.hstmt(els) if els is not None else "HSkip")
        if k == "ReturnStmt":
            return "(HReturn %s)" % self.hexp(kids(n)[0])
        if k == "BinaryOperator" and n.get("opcode") == "=":
            lhs, rhs = kids(n)
            m = self.this_member(lhs)
            if m in ("valid_", "fail_", "cr_"):
                return "(HSet %d%%nat %s)" % (self.num(m), self.hexp(rhs))
            if m == "length_" and strip(rhs).get("kind") == "IntegerLiteral":
                return "(HSetNum %d%%nat %d)" % (self.num(m), int(strip(rhs)["value"]))
            raise Untranslatable("assignment to " + str(m))
        if k == "CompoundAssignOperator" and n.get("opcode") == "+=":
            lhs, rhs = kids(n)
            m = self.this_member(lhs)
            if m == "length_":
                return "(HAddTo %d%%nat %s)" % (self.num(m), self.hnexp(rhs))
            raise Untranslatable("+= on " + str(m))
        if k == "UnaryOperator" and n.get("opcode") == "++" and self.ref(kids(n)[0], "iter"):
            return "HAdvance"
        if k in ("ExprWithCleanups",):
            return self.hstmt(kids(n)[0])
        if k == "CXXMemberCallExpr":
            fc = self.field_call(n)
            if fc and fc[0] == "clear" and not fc[1]:
                return "HFieldClear"
            callee = kids(n)[0]
            if callee.get("kind") == "MemberExpr" and callee.get("name") == "clear" and len(kids(n)) == 1 and self.this_member(kids(callee)[0]) == "fields_":
                return "HFieldsClear"
            if callee.get("kind") == "MemberExpr" and callee.get("name") == "add" and strip(kids(callee)[0]).get("kind") == "CXXThisExpr":
                args = kids(n)[1:]
                if len(args) == 2:
                    got = []
                    for a in args:
                        names = [self.field_call(m)[0] for m in walk(a) if self.field_call(m)]
                        got.append(names)
                    if got == [["name"], ["value"]]:
                        return "HAddField"
            raise Untranslatable("member call statement in message_headers::parse")
        raise Untranslatable("statement in message_headers::parse: " + str(k))


def translate_headers():
    inst = "via::http::message_headers<100, 65534, 1024, 8, false>"
    with tempfile.TemporaryDirectory() as d:
        tu = os.path.join(d, "tu.cpp")
        with open(tu, "w") as f:
            f.write('#include "via/http/headers.hpp"\n')
            f.write("template class %s;\n" % inst)
            f.write("template bool %s::parse<const char*>(const char*&, const char*);\n" % inst)
        p = subprocess.run(["clang++", "-std=c++17", "-I" + os.path.join(REPO, "include"), "-fsyntax-only",
                            "-Xclang", "-ast-dump=json", "-Xclang", "-ast-dump-filter=message_headers", tu],
                           stdout=subprocess.PIPE, stderr=subprocess.PIPE, text=True)
        if p.returncode != 0:
            raise Untranslatable("clang: " + p.stderr[-400:])
        docs = load_docs(p.stdout)
    for dd in docs:
        for n in walk(dd):
            if n.get("kind") == "ClassTemplateSpecializationDecl" and n.get("name") == "message_headers":
                pr = [m for m in walk(n) if m.get("kind") == "CXXMethodDecl" and m.get("name") == "parse" and any(c.get("kind") == "CompoundStmt" for c in kids(m))
                      and any(c.get("kind") == "TemplateArgument" for c in (m.get("inner") or []))]
                cl = [m for m in kids(n) if m.get("kind") == "CXXMethodDecl" and m.get("name") == "clear" and any(c.get("kind") == "CompoundStmt" for c in kids(m))]
                if pr and cl:
                    return (HTr().hstmt([c for c in kids(pr[0]) if c.get("kind") == "CompoundStmt"][0]),
                            HTr().hstmt([c for c in kids(cl[0]) if c.get("kind") == "CompoundStmt"][0]))
    raise Untranslatable("message_headers::parse / clear: no instantiated body found")



class MTr:
    """rx_request::parse / rx_response::parse (start line, then header block) -> M_Msg.mstmt"""
    def __init__(self, own_flag="valid_", hdr="headers_"):
        self.own_flag, self.hdr = own_flag, hdr

    def ref(self, n, name):
        n = strip(n)
        return n.get("kind") == "DeclRefExpr" and n.get("referencedDecl", {}).get("name") == name

    def call(self, n):
        """-> ("line"|"hdr", function, args) for base-class / headers_ member calls"""
        n = strip(n)
        if n.get("kind") != "CXXMemberCallExpr":
            return None
        callee = kids(n)[0]
        if callee.get("kind") != "MemberExpr":
            return None
        base = strip(kids(callee)[0])
        if base.get("kind") == "CXXThisExpr":
            return "line", callee.get("name"), kids(n)[1:]
        if base.get("kind") == "MemberExpr" and base.get("name") == self.hdr and strip(kids(base)[0]).get("kind") == "CXXThisExpr":
            return "hdr", callee.get("name"), kids(n)[1:]
        return None

    def mexp(self, n):
        n = strip(n)
        k = n.get("kind")
        if k == "CXXBoolLiteralExpr":
            return "(MConst %s)" % ("true" if n.get("value") else "false")
        if k == "UnaryOperator" and n.get("opcode") == "!":
            return "(MNot %s)" % self.mexp(kids(n)[0])
        if k == "BinaryOperator" and n.get("opcode") in ("&&", "||"):
            a, b = kids(n)
            return "(%s %s %s)" % ("MAnd" if n["opcode"] == "&&" else "MOr", self.mexp(a), self.mexp(b))
        c = self.call(n)
        if c:
            who, f, args = c
            if f == "valid" and not args:
                return "MLineValid" if who == "line" else "MHdrValid"
            if f == "parse" and len(args) == 2 and self.ref(args[0], "iter") and self.ref(args[1], "end"):
                return "MLineParse" if who == "line" else "MHdrParse"
            raise Untranslatable("call of %s in a message's parse" % f)
        if k == "MemberExpr" and n.get("name") == self.own_flag and strip(kids(n)[0]).get("kind") == "CXXThisExpr":
            return "MFlag"
        raise Untranslatable("expression in a message's parse: " + str(k))

    def seq(self, l):
        l = [x for x in l if x != "MSkip"]
        if not l:
            return "MSkip"
        out = l[-1]
        for x in reversed(l[:-1]):
            out = "(MSeq %s %s)" % (x, out)
        return out

    def mstmt(self, n):
        k = n.get("kind")
        if k == "CompoundStmt":
            return self.seq([self.mstmt(c) for c in kids(n)])
        if k == "NullStmt":
            return "MSkip"
        if k == "IfStmt":
            ks = kids(n)
            els = ks[2] if len(ks) > 2 else None
            return "(MIf %s %s %s)" % (self.mexp(ks[0]), self.mstmt(ks[1]), self.mstmt(els) if els is not None else "MSkip")
        if k == "ReturnStmt":
            return "(MReturn %s)" % self.mexp(kids(n)[0])
        if k == "CXXMemberCallExpr":
            c = self.call(n)
            if c and c[1] == "clear" and not c[2]:
                return "MLineClear" if c[0] == "line" else "MHdrClear"
            raise Untranslatable("member call statement in a message's function")
        if k == "BinaryOperator" and n.get("opcode") == "=":
            lhs, rhs = kids(n)
            l = strip(lhs)
            if l.get("kind") == "MemberExpr" and l.get("name") == self.own_flag and strip(kids(l)[0]).get("kind") == "CXXThisExpr":
                return "(MSet %s)" % self.mexp(rhs)
            raise Untranslatable("assignment in a message's parse")
        raise Untranslatable("statement in a message's parse: " + str(k))


def translate_message(header, cls, inst):
    with tempfile.TemporaryDirectory() as d:
        tu = os.path.join(d, "tu.cpp")
        with open(tu, "w") as f:
            f.write('#include "%s"\n' % header)
            f.write("template class %s;\n" % inst)
            f.write("template bool %s::parse<const char*>(const char*&, const char*);\n" % inst)
        p = subprocess.run(["clang++", "-std=c++17", "-I" + os.path.join(REPO, "include"), "-fsyntax-only",
                            "-Xclang", "-ast-dump=json", "-Xclang", "-ast-dump-filter=" + cls, tu],
                           stdout=subprocess.PIPE, stderr=subprocess.PIPE, text=True)
        if p.returncode != 0:
            raise Untranslatable("clang: " + p.stderr[-400:])
        docs = load_docs(p.stdout)
    for dd in docs:
        for n in walk(dd):
            if n.get("kind") == "ClassTemplateSpecializationDecl" and n.get("name") == cls:
                pr = [m for m in walk(n) if m.get("kind") == "CXXMethodDecl" and m.get("name") == "parse" and any(c.get("kind") == "CompoundStmt" for c in kids(m))
                      and any(c.get("kind") == "TemplateArgument" for c in (m.get("inner") or []))]
                cl = [m for m in kids(n) if m.get("kind") == "CXXMethodDecl" and m.get("name") == "clear" and any(c.get("kind") == "CompoundStmt" for c in kids(m))]
                if pr and cl:
                    return (MTr().mstmt([c for c in kids(pr[0]) if c.get("kind") == "CompoundStmt"][0]),
                            MTr().mstmt([c for c in kids(cl[0]) if c.get("kind") == "CompoundStmt"][0]))
    raise Untranslatable("%s::parse / clear: no instantiated body found" % cls)


def translate_headers_valid(which="valid"):
    """message_headers::valid() / fail() as an M_Hdr.hexp"""
    inst = "via::http::message_headers<100, 65534, 1024, 8, false>"
    with tempfile.TemporaryDirectory() as d:
        tu = os.path.join(d, "tu.cpp")
        with open(tu, "w") as f:
            f.write('#include "via/http/headers.hpp"\n')
            f.write("template class %s;\n" % inst)
        p = subprocess.run(["clang++", "-std=c++17", "-I" + os.path.join(REPO, "include"), "-fsyntax-only",
                            "-Xclang", "-ast-dump=json", "-Xclang", "-ast-dump-filter=message_headers", tu],
                           stdout=subprocess.PIPE, stderr=subprocess.PIPE, text=True)
        if p.returncode != 0:
            raise Untranslatable("clang: " + p.stderr[-400:])
        docs = load_docs(p.stdout)
    for dd in docs:
        for n in walk(dd):
            if n.get("kind") == "ClassTemplateSpecializationDecl" and n.get("name") == "message_headers":
                ms = [m for m in kids(n) if m.get("kind") == "CXXMethodDecl" and m.get("name") == which and any(c.get("kind") == "CompoundStmt" for c in kids(m))]
                if len(ms) == 1:
                    rs = kids([c for c in kids(ms[0]) if c.get("kind") == "CompoundStmt"][0])
                    if len(rs) == 1 and rs[0].get("kind") == "ReturnStmt":
                        return HTr().hexp(kids(rs[0])[0])
    raise Untranslatable("message_headers::valid")



class CTr:
    """rx_chunk::parse(iter, end) -> M_Chunk.cstmt"""
    NUMS = ["valid_", "cr_", "fail_"]

    def ref(self, n, name):
        n = strip(n)
        return n.get("kind") == "DeclRefExpr" and n.get("referencedDecl", {}).get("name") == name

    def this_member(self, n):
        n = strip(n)
        if n.get("kind") == "MemberExpr" and kids(n) and strip(kids(n)[0]).get("kind") == "CXXThisExpr":
            return n.get("name")
        return None

    def deref_iter(self, n):
        n = strip(n)
        return n.get("kind") == "UnaryOperator" and n.get("opcode") == "*" and self.ref(kids(n)[0], "iter")

    def call(self, n):
        """-> (object, function, args): object is "hdr" (the base class), "trailers" or "data" """
        n = strip(n)
        if n.get("kind") != "CXXMemberCallExpr":
            return None
        callee = kids(n)[0]
        if callee.get("kind") != "MemberExpr":
            return None
        base = strip(kids(callee)[0])
        if base.get("kind") == "CXXThisExpr":
            return "hdr", callee.get("name"), kids(n)[1:]
        m = self.this_member(base)
        if m == "trailers_":
            return "trailers", callee.get("name"), kids(n)[1:]
        if m == "data_":
            return "data", callee.get("name"), kids(n)[1:]
        return None

    def num(self, m):
        if m in self.NUMS:
            return self.NUMS.index(m)
        raise Untranslatable("rx_chunk member " + str(m))

    def is_ptrdiff_cast(self, n):
        return n.get("kind") == "CXXStaticCastExpr" and "ptrdiff_t" in (n.get("type", {}).get("qualType", ""))

    def zexp(self, n):
        # static_cast<std::ptrdiff_t>(x) must be seen before strip() removes it
        while n.get("kind") in ("ImplicitCastExpr", "ParenExpr", "ExprWithCleanups"):
            n = kids(n)[0]
        k = n.get("kind")
        if self.is_ptrdiff_cast(n):
            c = self.call(kids(n)[0])
            if c and c[0] == "hdr" and c[1] == "size" and not c[2]:
                return "CZHdrSize"
            if c and c[0] == "data" and c[1] == "size" and not c[2]:
                return "CZDataSize"
            raise Untranslatable("static_cast<ptrdiff_t> of something else")
        if k == "IntegerLiteral":
            return "(CZLit %d)" % int(n["value"])
        if k == "DeclRefExpr" and n.get("referencedDecl", {}).get("name") == "data_required":
            return "CZReq"
        if k == "DeclRefExpr" and n.get("referencedDecl", {}).get("name") == "rx_size":
            return "CZRx"
        if k == "BinaryOperator" and n.get("opcode") == "-":
            a, b = kids(n)
            return "(CZSub %s %s)" % (self.zexp(a), self.zexp(b))
        if k == "CallExpr":
            f = strip(kids(n)[0]); name = f.get("referencedDecl", {}).get("name"); args = kids(n)[1:]
            if name == "distance" and len(args) == 2 and self.ref(args[0], "iter") and self.ref(args[1], "end"):
                return "CZDistance"
        raise Untranslatable("ptrdiff expression in rx_chunk::parse: " + str(k))

    def cexp(self, n):
        n = strip(n)
        k = n.get("kind")
        if k == "CXXBoolLiteralExpr":
            return "(CConst %s)" % ("true" if n.get("value") else "false")
        if k == "SubstNonTypeTemplateParmExpr":
            for m in walk(n):
                if m.get("kind") == "CXXBoolLiteralExpr":
                    return "(CConst %s)" % ("true" if m.get("value") else "false")
            raise Untranslatable("template parameter as a condition")
        if k == "UnaryOperator" and n.get("opcode") == "!":
            return "(CNot %s)" % self.cexp(kids(n)[0])
        if k == "BinaryOperator" and n.get("opcode") in ("&&", "||"):
            a, b = kids(n)
            return "(%s %s %s)" % ("CAnd" if n["opcode"] == "&&" else "COr", self.cexp(a), self.cexp(b))
        if k == "BinaryOperator" and n.get("opcode") in ("==", "!="):
            a, b = kids(n)
            neg = n["opcode"] == "!="
            if (self.ref(a, "iter") and self.ref(b, "end")) or (self.ref(a, "end") and self.ref(b, "iter")):
                return "(CNot CAtEnd)" if neg else "CAtEnd"
            for x, y in ((a, b), (b, a)):
                if strip(x).get("kind") == "CharacterLiteral" and self.deref_iter(y):
                    e = "(CPeekIs %d)" % int(strip(x)["value"])
                    return "(CNot %s)" % e if neg else e
            raise Untranslatable("comparison in rx_chunk::parse")
        if k == "BinaryOperator" and n.get("opcode") == ">":
            a, b = kids(n)
            return "(CZGt %s %s)" % (self.zexp(a), self.zexp(b))
        c = self.call(n)
        if c:
            who, f, args = c
            is_parse = f == "parse" and len(args) == 2 and self.ref(args[0], "iter") and self.ref(args[1], "end")
            if who == "hdr" and f == "valid" and not args:
                return "CHdrValid"
            if who == "hdr" and f == "is_last" and not args:
                return "CHdrIsLast"
            if who == "hdr" and f == "fail" and not args:
                return "CHdrFail"
            if who == "trailers" and f == "fail" and not args:
                return "CTrailersFail"
            if who == "hdr" and is_parse:
                return "CHdrParse"
            if who == "trailers" and is_parse:
                return "CTrailersParse"
            raise Untranslatable("call of %s.%s in rx_chunk::parse" % (who, f))
        m = self.this_member(n)
        if m is not None:
            return "(CFlag %d%%nat)" % self.num(m)
        raise Untranslatable("expression in rx_chunk::parse: " + str(k))

    def seq(self, l):
        l = [x for x in l if x != "CSkip"]
        if not l:
            return "CSkip"
        out = l[-1]
        for x in reversed(l[:-1]):
            out = "(CSeq %s %s)" % (x, out)
        return out

    def cstmt(self, n):
        k = n.get("kind")
        if k == "CompoundStmt":
            return self.seq([self.cstmt(c) for c in kids(n)])
        if k == "NullStmt":
            return "CSkip"
        if k == "ExprWithCleanups":
            return self.cstmt(kids(n)[0])
        if k == "IfStmt":
            ks = kids(n)
            els = ks[2] if len(ks) > 2 else None
            return "(CIf %s %s %s)" % (self.cexp(ks[0]), self.cstmt(ks[1]), self.cstmt(els) if els is not None else "CSkip")
        if k == "ReturnStmt":
            return "(CReturn %s)" % self.cexp(kids(n)[0])
        if k == "DeclStmt":
            vs = kids(n)
            if len(vs) == 1 and vs[0].get("kind") == "VarDecl" and kids(vs[0]):
                name, init = vs[0].get("name"), kids(vs[0])[0]
                if name == "data_required":
                    return "(CLetReq %s)" % self.zexp(init)
                if name == "rx_size":
                    return "(CLetRx %s)" % self.zexp(init)
                if name == "next":
                    i = strip(init)
                    if i.get("kind") == "BinaryOperator" and i.get("opcode") == "+":
                        a, b = kids(i)
                        if self.ref(a, "iter") and self.ref(b, "data_required"):
                            return "CLetNext"
            raise Untranslatable("declaration in rx_chunk::parse")
        if k == "BinaryOperator" and n.get("opcode") == "=":
            lhs, rhs = kids(n)
            if self.ref(lhs, "iter") and self.ref(rhs, "next"):
                return "CJumpNext"
            if self.ref(lhs, "iter") and self.ref(rhs, "end"):
                return "CJumpEnd"
            m = self.this_member(lhs)
            if m in self.NUMS:
                return "(CSet %d%%nat %s)" % (self.num(m), self.cexp(rhs))
            raise Untranslatable("assignment in rx_chunk::parse")
        if k == "UnaryOperator" and n.get("opcode") == "++" and self.ref(kids(n)[0], "iter"):
            return "CAdvance"
        if k == "CXXMemberCallExpr":
            c = self.call(n)
            if c and c[1] == "clear" and not c[2]:
                return {"hdr": "CHdrClear", "data": "CDataClear", "trailers": "CTrailersClear"}[c[0]]
            if c and c[0] == "data" and c[1] == "insert" and len(c[2]) == 3:
                pos, a, b = c[2]
                at_end = any(self.call(m) and self.call(m)[0] == "data" and self.call(m)[1] == "end" for m in walk(pos))
                if at_end and self.ref(a, "iter") and self.ref(b, "next"):
                    return "CInsertToNext"
                if at_end and self.ref(a, "iter") and self.ref(b, "end"):
                    return "CInsertRest"
            raise Untranslatable("member call statement in rx_chunk::parse")
        raise Untranslatable("statement in rx_chunk::parse: " + str(k))


def translate_chunk():
    out = {}
    for variant, flag in (("lax", "false"), ("strict", "true")):
        inst = "via::http::rx_chunk<std::string, 100, 65534, 1024, 8, %s>" % flag
        with tempfile.TemporaryDirectory() as d:
            tu = os.path.join(d, "tu.cpp")
            with open(tu, "w") as f:
                f.write('#include "via/http/chunk.hpp"\n')
                f.write("template class %s;\n" % inst)
                f.write("template bool %s::parse<const char*>(const char*&, const char*);\n" % inst)
            p = subprocess.run(["clang++", "-std=c++17", "-I" + os.path.join(REPO, "include"), "-fsyntax-only",
                                "-Xclang", "-ast-dump=json", "-Xclang", "-ast-dump-filter=rx_chunk", tu],
                               stdout=subprocess.PIPE, stderr=subprocess.PIPE, text=True)
            if p.returncode != 0:
                raise Untranslatable("clang: " + p.stderr[-400:])
            docs = load_docs(p.stdout)
        for dd in docs:
            for n in walk(dd):
                if n.get("kind") == "ClassTemplateSpecializationDecl" and n.get("name") == "rx_chunk" and variant not in out:
                    pr = [m for m in walk(n) if m.get("kind") == "CXXMethodDecl" and m.get("name") == "parse" and any(c.get("kind") == "CompoundStmt" for c in kids(m))
                          and any(c.get("kind") == "TemplateArgument" for c in (m.get("inner") or []))]
                    cl = [m for m in kids(n) if m.get("kind") == "CXXMethodDecl" and m.get("name") == "clear" and any(c.get("kind") == "CompoundStmt" for c in kids(m))]
                    if pr and cl:
                        out[variant] = CTr().cstmt([c for c in kids(pr[0]) if c.get("kind") == "CompoundStmt"][0])
                        clr = CTr().cstmt([c for c in kids(cl[0]) if c.get("kind") == "CompoundStmt"][0])
                        if out.get("clear", clr) != clr:
                            raise Untranslatable("rx_chunk::clear differs between the instantiations")
                        out["clear"] = clr
                        fl = [m for m in kids(n) if m.get("kind") == "CXXMethodDecl" and m.get("name") == "fail" and any(c.get("kind") == "CompoundStmt" for c in kids(m))]
                        rs = kids([c for c in kids(fl[0]) if c.get("kind") == "CompoundStmt"][0]) if len(fl) == 1 else []
                        if len(rs) != 1 or rs[0].get("kind") != "ReturnStmt":
                            raise Untranslatable("rx_chunk::fail is not a single return")
                        out["fail"] = CTr().cexp(kids(rs[0])[0])
        if variant not in out:
            raise Untranslatable("rx_chunk::parse (%s): no instantiated body found" % variant)
    return out



class LocalTr(Tr):
    """a free function whose state is a few local variables (treated like numeric members) and the character *iter"""
    def member(self, n):
        n = strip(n)
        if n.get("kind") == "DeclRefExpr" and n.get("referencedDecl", {}).get("kind") == "VarDecl" and n["referencedDecl"].get("name") in self.cfg["nums"]:
            return n["referencedDecl"]["name"]
        return None

    def is_c(self, n):
        n = strip(n)
        if n.get("kind") == "UnaryOperator" and n.get("opcode") == "*":
            m = strip(kids(n)[0])
            return m.get("kind") == "DeclRefExpr" and m.get("referencedDecl", {}).get("name") == "iter"
        return False


def translate_split():
    """are_headers_split(headers): two locals, a for loop over the string, a final return.  The frame
    { char prev(..); char pprev(..); if (!headers.empty()) { auto iter(headers.cbegin()); for (; iter != headers.cend(); ++iter) BODY } return B; }
    is checked here; BODY is translated into M_Imp.stmt over the store [prev; pprev] and the character *iter."""
    with tempfile.TemporaryDirectory() as d:
        tu = os.path.join(d, "tu.cpp")
        with open(tu, "w") as f:
            f.write('#include "via/http/headers.hpp"\n')
        p = subprocess.run(["clang++", "-std=c++17", "-I" + os.path.join(REPO, "include"), "-fsyntax-only",
                            "-Xclang", "-ast-dump=json", "-Xclang", "-ast-dump-filter=are_headers_split", tu],
                           stdout=subprocess.PIPE, stderr=subprocess.PIPE, text=True)
        if p.returncode != 0:
            raise Untranslatable("clang: " + p.stderr[-400:])
        docs = load_docs(p.stdout)
    fn = None
    for dd in docs:
        for n in walk(dd):
            if n.get("kind") == "FunctionDecl" and n.get("name") == "are_headers_split" and any(c.get("kind") == "CompoundStmt" for c in kids(n)):
                fn = n
    if fn is None:
        raise Untranslatable("are_headers_split: no body found")
    body = [c for c in kids(fn) if c.get("kind") == "CompoundStmt"][0]
    st = kids(body)
    cfg = dict(nums=["prev", "pprev"], strs=[], limits=[], state=None, param=None)
    tr = LocalTr(cfg, {})

    def char_decl(n, name):
        if n.get("kind") == "DeclStmt" and len(kids(n)) == 1 and kids(n)[0].get("kind") == "VarDecl" and kids(n)[0].get("name") == name:
            init = strip(kids(kids(n)[0])[0])
            if init.get("kind") == "CharacterLiteral":
                return int(init["value"])
        raise Untranslatable("are_headers_split: declaration of " + name)

    def call_on_headers(n, fname):
        n = strip(n)
        while n.get("kind") in ("MaterializeTemporaryExpr", "CXXBindTemporaryExpr", "CXXConstructExpr") and kids(n):
            n = strip(kids(n)[0])
        if n.get("kind") == "CXXMemberCallExpr":
            callee = kids(n)[0]
            obj = strip(kids(callee)[0])
            return callee.get("name") == fname and obj.get("kind") == "DeclRefExpr" and obj.get("referencedDecl", {}).get("name") == "headers"
        return False

    if len(st) != 4:
        raise Untranslatable("are_headers_split: frame")
    prev0, pprev0 = char_decl(st[0], "prev"), char_decl(st[1], "pprev")
    iff = st[2]
    if iff.get("kind") != "IfStmt" or len(kids(iff)) != 2:
        raise Untranslatable("are_headers_split: frame (if)")
    cond = strip(kids(iff)[0])
    if not (cond.get("kind") == "UnaryOperator" and cond.get("opcode") == "!" and call_on_headers(kids(cond)[0], "empty")):
        raise Untranslatable("are_headers_split: frame (condition)")
    inner = kids(kids(iff)[1])
    if len(inner) != 2 or inner[0].get("kind") != "DeclStmt" or inner[1].get("kind") != "ForStmt":
        raise Untranslatable("are_headers_split: frame (loop)")
    itv = kids(inner[0])[0]
    if itv.get("name") != "iter" or not any(call_on_headers(m, "cbegin") for m in walk(itv)):
        raise Untranslatable("are_headers_split: frame (iterator)")
    fparts = [c for c in (inner[1].get("inner") or [])]
    real = [c for c in fparts if isinstance(c, dict) and c.get("kind")]
    if len(real) != 3:
        raise Untranslatable("are_headers_split: frame (for parts)")
    fcond, finc, fbody = real
    fc = strip(fcond)
    ok_cond = fc.get("kind") in ("BinaryOperator", "CXXOperatorCallExpr") and any(call_on_headers(m, "cend") for m in walk(fc)) and \
        any(m.get("kind") == "DeclRefExpr" and m.get("referencedDecl", {}).get("name") == "iter" for m in walk(fc)) and \
        (fc.get("opcode") == "!=" or any(m.get("kind") == "DeclRefExpr" and m.get("referencedDecl", {}).get("name") == "operator!=" for m in walk(fc)))
    fi = strip(finc)
    ok_inc = (fi.get("kind") == "UnaryOperator" and fi.get("opcode") == "++") or \
        (fi.get("kind") == "CXXOperatorCallExpr" and any(m.get("kind") == "DeclRefExpr" and m.get("referencedDecl", {}).get("name") == "operator++" for m in walk(fi)))
    if not (ok_cond and ok_inc):
        raise Untranslatable("are_headers_split: frame (for header)")
    ret = st[3]
    if ret.get("kind") != "ReturnStmt" or strip(kids(ret)[0]).get("kind") != "CXXBoolLiteralExpr":
        raise Untranslatable("are_headers_split: frame (final return)")
    final = "true" if strip(kids(ret)[0]).get("value") else "false"
    return prev0, pprev0, tr.stmt(fbody), final



# ---- the queries on a received request (which decide closing, 100-continue, the Host check, HEAD/TRACE) ------------------
LC_NAMES = {"LC_HOST": "hf_LC_HOST", "LC_CONNECTION": "hf_LC_CONNECTION", "LC_TRANSFER_ENCODING": "hf_LC_TRANSFER_ENCODING",
            "LC_EXPECT": "hf_LC_EXPECT", "LC_CONTENT_LENGTH": "hf_LC_CONTENT_LENGTH"}
TOKENS = {"IDENTITY": "tok_IDENTITY", "CLOSE": "tok_CLOSE", "CONTINUE": "tok_CONTINUE"}
METHODS = {"HEAD": "method_HEAD", "TRACE": "method_TRACE", "GET": "method_GET"}


def named_refs(n, table):
    return [table[m["referencedDecl"]["name"]] for m in walk(n)
            if m.get("kind") == "DeclRefExpr" and m.get("referencedDecl", {}).get("name") in table]


def method_bodies(docs, cls, names):
    out = {}
    for dd in docs:
        for n in walk(dd):
            if n.get("kind") == "ClassTemplateSpecializationDecl" and n.get("name") == cls:
                for m in kids(n):
                    if m.get("kind") == "CXXMethodDecl" and m.get("name") in names and m.get("name") not in out:
                        b = [c for c in kids(m) if c.get("kind") == "CompoundStmt"]
                        if b:
                            out[m["name"]] = b[0]
    missing = [x for x in names if x not in out]
    if missing:
        raise Untranslatable("%s: no body for %s" % (cls, ", ".join(missing)))
    return out


def ast_of(header, inst, flt):
    with tempfile.TemporaryDirectory() as d:
        tu = os.path.join(d, "tu.cpp")
        with open(tu, "w") as f:
            f.write('#include "%s"\n' % header)
            f.write("template class %s;\n" % inst)
        p = subprocess.run(["clang++", "-std=c++17", "-I" + os.path.join(REPO, "include"), "-fsyntax-only",
                            "-Xclang", "-ast-dump=json", "-Xclang", "-ast-dump-filter=" + flt, tu],
                           stdout=subprocess.PIPE, stderr=subprocess.PIPE, text=True)
        if p.returncode != 0:
            raise Untranslatable("clang: " + p.stderr[-400:])
        return load_docs(p.stdout)


def call_name(n):
    """a member call: (name of the function, object expression)"""
    n = strip(n)
    while n.get("kind") in ("MaterializeTemporaryExpr", "CXXBindTemporaryExpr", "CXXConstructExpr") and kids(n):
        n = strip(kids(n)[0])
    if n.get("kind") == "CXXMemberCallExpr":
        callee = kids(n)[0]
        if callee.get("kind") == "MemberExpr":
            return callee.get("name"), strip(kids(callee)[0]), kids(n)[1:]
    return None, None, None


def translate_header_queries():
    """message_headers::is_chunked / close_connection / expect_continue, each of the frame
       { std::string v(find(NAME)); if (v.empty()) return false; std::transform(.., ::tolower); return (v.find(TOKEN) OP npos); }
    -> M_Query.HQ name token found  (the result when the token is found)"""
    docs = ast_of("via/http/headers.hpp", "via::http::message_headers<100, 65534, 1024, 8, false>", "message_headers")
    bodies = method_bodies(docs, "message_headers", ["is_chunked", "close_connection", "expect_continue"])
    out = {}
    for fn, body in bodies.items():
        st = kids(body)
        if len(st) != 4 or st[0].get("kind") != "DeclStmt" or st[1].get("kind") != "IfStmt" or st[3].get("kind") != "ReturnStmt":
            raise Untranslatable("message_headers::%s: frame" % fn)
        var = kids(st[0])[0]
        vname = var.get("name")
        names = named_refs(var, LC_NAMES)
        fcalls = [call_name(m) for m in walk(var)]
        if len(names) != 1 or not any(c[0] == "find" and c[1].get("kind") == "CXXThisExpr" for c in fcalls if c[0]):
            raise Untranslatable("message_headers::%s: the value looked up" % fn)
        # if (v.empty()) return false;
        c0, o0, _ = call_name(kids(st[1])[0])
        r0 = kids(st[1])[1]
        r0 = kids(r0)[0] if r0.get("kind") == "CompoundStmt" and len(kids(r0)) == 1 else r0
        if not (c0 == "empty" and o0.get("kind") == "DeclRefExpr" and o0.get("referencedDecl", {}).get("name") == vname and len(kids(st[1])) == 2
                and r0.get("kind") == "ReturnStmt" and strip(kids(r0)[0]).get("kind") == "CXXBoolLiteralExpr" and not strip(kids(r0)[0]).get("value")):
            raise Untranslatable("message_headers::%s: the empty case" % fn)
        # std::transform(v.begin(), v.end(), v.begin(), ::tolower)
        t = st[2]
        refs = [m.get("referencedDecl", {}).get("name") for m in walk(t) if m.get("kind") == "DeclRefExpr"]
        if not ("transform" in refs and "tolower" in refs and vname in refs):
            raise Untranslatable("message_headers::%s: the lower-casing" % fn)
        # return (v.find(TOKEN) OP npos)
        e = strip(kids(st[3])[0])
        if e.get("kind") != "BinaryOperator" or e.get("opcode") not in ("==", "!="):
            raise Untranslatable("message_headers::%s: the result" % fn)
        toks = named_refs(e, TOKENS)
        fc = [call_name(m) for m in walk(e)]
        npos = [m for m in walk(e) if m.get("kind") == "DeclRefExpr" and m.get("referencedDecl", {}).get("name") == "npos"]
        if len(toks) != 1 or not npos or not any(c[0] == "find" and c[1].get("kind") == "DeclRefExpr" and c[1].get("referencedDecl", {}).get("name") == vname for c in fc if c[0]):
            raise Untranslatable("message_headers::%s: the search" % fn)
        out[fn] = "(HQ %s %s %s)" % (names[0], toks[0], "true" if e["opcode"] == "!=" else "false")
    return out


class QTr:
    """rx_request::keep_alive / missing_host_header / expect_continue / is_chunked / is_head / is_trace -> M_Query.rqexp"""
    def __init__(self, line_tr, hq):
        self.line_tr, self.hq = line_tr, hq

    def qexp(self, n):
        n = strip(n)
        k = n.get("kind")
        if k == "UnaryOperator" and n.get("opcode") == "!":
            return "(RQNot %s)" % self.qexp(kids(n)[0])
        if k == "BinaryOperator" and n.get("opcode") in ("&&", "||"):
            a, b = kids(n)
            return "(%s %s %s)" % ("RQAnd" if n["opcode"] == "&&" else "RQOr", self.qexp(a), self.qexp(b))
        if k == "CXXOperatorCallExpr":
            ms = named_refs(n, METHODS)
            calls = [call_name(m) for m in walk(n)]
            is_eq = any(m.get("kind") == "DeclRefExpr" and m.get("referencedDecl", {}).get("name") == "operator==" for m in walk(n))
            if is_eq and len(ms) == 1 and any(c[0] == "method" and c[1].get("kind") == "CXXThisExpr" for c in calls if c[0]):
                return "(RQMethodIs %s)" % ms[0]
            raise Untranslatable("operator call in a request query")
        fn, obj, args = call_name(n)
        if fn:
            if obj.get("kind") == "CXXThisExpr":
                # a function of the request line (the base class): an expression over its members
                return "(RQLine %s)" % self.line_tr.bexp(n)
            if obj.get("kind") == "MemberExpr" and obj.get("name") == "headers_":
                if fn in self.hq and not args:
                    return "(RQHdr %s)" % ("hd_%s_src" % fn)
            if fn == "empty" and not args:
                f2, o2, a2 = call_name(obj)
                if f2 == "find" and o2.get("kind") == "MemberExpr" and o2.get("name") == "headers_":
                    names = named_refs(obj, LC_NAMES)
                    if len(names) == 1:
                        return "(RQFindEmpty %s)" % names[0]
            raise Untranslatable("call of %s in a request query" % fn)
        if k == "BinaryOperator" and n.get("opcode") in CMPS:
            return "(RQLine %s)" % self.line_tr.bexp(n)
        raise Untranslatable("expression in a request query: " + str(k))


def translate_request_queries(hq):
    docs = ast_of("via/http/request.hpp", "via::http::rx_request<8190, 8, 100, 65534, 1024, 8, false>", "request")
    cfg = [c for c in CLASSES if c["name"] == "rl"][0]
    # accessors of the request line that the queries call: translated and inlined
    lb = method_bodies(docs, "request_line", ["major_version", "minor_version", "is_http_1_0_or_earlier", "method"])
    tr = Tr(cfg, {})
    tr.inline = {}

    def single_return(b, what):
        rs = kids(b)
        if len(rs) != 1 or rs[0].get("kind") != "ReturnStmt":
            raise Untranslatable("request_line::%s is not a single return" % what)
        return kids(rs[0])[0]
    for an in ("major_version", "minor_version"):
        tr.inline[an] = tr.nexp(single_return(lb[an], an))
    early = tr.bexp(single_return(lb["is_http_1_0_or_earlier"], "is_http_1_0_or_earlier"))
    if tr.member(single_return(lb["method"], "method")) != cfg["strs"][0]:
        raise Untranslatable("request_line::method() does not return " + cfg["strs"][0])

    class LineTr(Tr):
        def bexp(self, n):
            fn, obj, args = call_name(n)
            if fn == "is_http_1_0_or_earlier" and obj is not None and obj.get("kind") == "CXXThisExpr" and not args:
                return early
            return Tr.bexp(self, n)
    ltr = LineTr(cfg, {})
    ltr.inline = tr.inline
    qb = method_bodies(docs, "rx_request", ["keep_alive", "missing_host_header", "expect_continue", "is_chunked", "is_head", "is_trace"])
    qt = QTr(ltr, hq)
    return {name: qt.qexp(single_return(b, name)) for name, b in qb.items()}



# ---- request_receiver::receive and clear -------------------------------------------------------------------------------
RX_VALUES = {"INVALID": "VX_INVALID", "EXPECT_CONTINUE": "VX_EXPECT_CONTINUE", "INCOMPLETE": "VX_INCOMPLETE", "VALID": "VX_VALID", "CHUNK": "VX_CHUNK"}
REQ_QUERIES = ("keep_alive", "missing_host_header", "expect_continue", "is_chunked", "is_head", "is_trace")
R_FLAGS = ["response_code_", "continue_sent_", "is_head_"]


class RTr:
    def __init__(self, line_states, msg="request_", parsed="request_parsed", limit="max_content_length_"):
        self.line_states, self.msg, self.parsed, self.limit = line_states, msg, parsed, limit

    def ref(self, n, name):
        n = strip(n)
        return n.get("kind") == "DeclRefExpr" and n.get("referencedDecl", {}).get("name") == name

    def this_member(self, n):
        n = strip(n)
        if n.get("kind") == "MemberExpr" and kids(n) and strip(kids(n)[0]).get("kind") == "CXXThisExpr":
            return n.get("name")
        return None

    def chain(self, n):
        """a chain of member calls starting at a data member of this: request_.headers().find(X).empty() ->
        ("request_", [("headers", []), ("find", [X]), ("empty", [])]); a call on this itself -> ("this", [...])"""
        n = strip(n)
        while n.get("kind") in ("MaterializeTemporaryExpr", "CXXBindTemporaryExpr") and kids(n):
            n = strip(kids(n)[0])
        calls = []
        while n.get("kind") == "CXXMemberCallExpr":
            callee = kids(n)[0]
            if callee.get("kind") != "MemberExpr":
                return None
            calls.append((callee.get("name"), kids(n)[1:]))
            n = strip(kids(callee)[0])
            while n.get("kind") in ("MaterializeTemporaryExpr", "CXXBindTemporaryExpr") and kids(n):
                n = strip(kids(n)[0])
        calls.reverse()
        m = self.this_member(n)
        if m is not None:
            return m, calls
        if n.get("kind") == "CXXThisExpr":
            return "this", calls
        return None

    def is_parse_args(self, args):
        return len(args) == 2 and self.ref(args[0], "iter") and self.ref(args[1], "end")

    def zexp(self, n):
        if n.get("kind") == "ImplicitCastExpr" and self.this_member(n) == self.limit:
            return "RZMaxContent"                  # an implicit conversion of the size limit to std::ptrdiff_t
        while n.get("kind") in ("ImplicitCastExpr", "ParenExpr", "ExprWithCleanups"):
            n = kids(n)[0]
        k = n.get("kind")
        if k == "CXXStaticCastExpr" and "ptrdiff_t" in n.get("type", {}).get("qualType", ""):
            inner = kids(n)[0]
            if self.this_member(inner) == self.limit:
                return "RZMaxContent"
            c = self.chain(inner)
            if c and c[0] == "body_" and [x[0] for x in c[1]] == ["size"]:
                return "RZBodySize"
            raise Untranslatable("static_cast<ptrdiff_t> in receive")
        if k == "IntegerLiteral":
            return "(RZLit %d)" % int(n["value"])
        if k == "DeclRefExpr":
            name = n.get("referencedDecl", {}).get("name")
            if name in ("rx_size", "content_length", "required"):
                return {"rx_size": "RZRx", "content_length": "RZCl", "required": "RZReq"}[name]
        if k == "BinaryOperator" and n.get("opcode") == "-":
            a, b = kids(n)
            return "(RZSub %s %s)" % (self.zexp(a), self.zexp(b))
        if k == "CallExpr":
            f = strip(kids(n)[0]); name = f.get("referencedDecl", {}).get("name"); args = kids(n)[1:]
            if name == "distance" and self.is_parse_args(args):
                return "RZDistance"
        if self.this_member(n) == self.limit and n.get("kind") == "ImplicitCastExpr":
            return "RZMaxContent"
        c = self.chain(n)
        if c and c[0] == self.msg and [x[0] for x in c[1]] == ["content_length"]:
            return "RZContentLength"
        raise Untranslatable("ptrdiff expression in receive: " + str(k))

    def rexp(self, n):
        n = strip(n)
        k = n.get("kind")
        if k == "CXXBoolLiteralExpr":
            return "(RConst %s)" % ("true" if n.get("value") else "false")
        if k == "UnaryOperator" and n.get("opcode") == "!":
            return "(RNot %s)" % self.rexp(kids(n)[0])
        if k == "BinaryOperator" and n.get("opcode") in ("&&", "||"):
            a, b = kids(n)
            return "(%s %s %s)" % ("RAnd" if n["opcode"] == "&&" else "ROr", self.rexp(a), self.rexp(b))
        if k == "DeclRefExpr" and n.get("referencedDecl", {}).get("name") == self.parsed:
            return "RParsed"
        if k == "DeclRefExpr" and n.get("referencedDecl", {}).get("name") == "no_content_length":
            return "RNoCl"
        if k == "BinaryOperator" and n.get("opcode") in ("!=", ">") and \
                ((self.ref(kids(n)[0], "iter") and self.ref(kids(n)[1], "end")) or (self.ref(kids(n)[0], "end") and self.ref(kids(n)[1], "iter"))):
            if n["opcode"] == "!=" or (self.ref(kids(n)[0], "end") and self.ref(kids(n)[1], "iter")):
                return "RMore"
        if k == "BinaryOperator" and n.get("opcode") in (">", "<", "=="):
            a, b = kids(n)
            # body_.size() == static_cast<size_t>(request_.content_length())
            ca = self.chain(a)
            if n["opcode"] == "==" and ca and ca[0] == "body_" and [x[0] for x in ca[1]] == ["size"]:
                sb = b
                while sb.get("kind") in ("ImplicitCastExpr", "ParenExpr"):
                    sb = kids(sb)[0]
                if sb.get("kind") == "CXXStaticCastExpr" and "size_t" in sb.get("type", {}).get("qualType", ""):
                    cb = self.chain(kids(sb)[0])
                    if cb and cb[0] == self.msg and [x[0] for x in cb[1]] == ["content_length"]:
                        return "RBodyIsContentLength"
                raise Untranslatable("comparison of body_.size() in receive")
            # (body_.size() + chunk_.data().size()) > max_content_length_
            sa = strip(a)
            if n["opcode"] == ">" and sa.get("kind") == "BinaryOperator" and sa.get("opcode") == "+" and self.this_member(b) == self.limit:
                x, y = [self.chain(t) for t in kids(sa)]
                if x and y and x[0] == "body_" and [t[0] for t in x[1]] == ["size"] and y[0] == "chunk_" and [t[0] for t in y[1]] == ["data", "size"]:
                    return "RSumOverLimit"
                raise Untranslatable("sum of sizes in receive")
            return "(RZCmp %s %s %s)" % ({">": "RGt", "<": "RLt", "==": "REq"}[n["opcode"]], self.zexp(a), self.zexp(b))
        m = self.this_member(n)
        if m in ("continue_sent_", "is_head_"):
            return "(RFlag %d%%nat)" % R_FLAGS.index(m)
        if m == "translate_head_":
            return "RTranslateHead"
        if m == "concatenate_chunks_":
            return "RConcat"
        c = self.chain(n)
        if c:
            obj, calls = c
            names = [x[0] for x in calls]
            if obj == self.msg:
                if names == ["is_chunked"] and self.msg == "response_":
                    return "(RQuery rp_is_chunked_src)"
                if names == ["valid"]:
                    return "RReqValid"
                if names == ["parse"] and self.is_parse_args(calls[0][1]):
                    return "RReqParse"
                if names == ["fail"]:
                    return "RReqLineFail"
                if names == ["headers", "fail"]:
                    return "RReqHdrFail"
                if len(names) == 1 and names[0] in REQ_QUERIES and not calls[0][1]:
                    return "(RQuery rq_%s_src)" % names[0]
                if names == ["headers", "find", "empty"]:
                    nm = named_refs(n, LC_NAMES)
                    if len(nm) == 1:
                        return "(RFindEmpty %s)" % nm[0]
            if obj == "chunk_":
                if names == ["valid"]:
                    return "RChunkValid"
                if names == ["parse"] and self.is_parse_args(calls[0][1]):
                    return "RChunkParse"
                if names == ["fail"]:
                    return "RChunkFail"
                if names == ["is_last"]:
                    return "RChunkIsLast"
            raise Untranslatable("call %s.%s in receive" % (obj, ".".join(names)))
        raise Untranslatable("expression in receive: " + str(k))

    def seq(self, l):
        l = [x for x in l if x != "RSkip"]
        if not l:
            return "RSkip"
        out = l[-1]
        for x in reversed(l[:-1]):
            out = "(RSeq %s %s)" % (x, out)
        return out

    def switch(self, n):
        """switch (request_.state()) { case E: S; break; ... default: S } -> nested ifs on the state of the request line"""
        ks = kids(n)
        c = self.chain(ks[0])
        if not (c and c[0] == self.msg and [x[0] for x in c[1]] == ["state"]):
            raise Untranslatable("switch in receive")
        body = [x for x in ks if x.get("kind") == "CompoundStmt"][0]
        arms, default, cur = [], None, None
        for it in kids(body):
            k = it.get("kind")
            if k == "CaseStmt":
                lab = strip(kids(it)[0]).get("referencedDecl", {}).get("name")
                if lab not in self.line_states:
                    raise Untranslatable("case label " + str(lab))
                cur = [self.line_states[lab], [self.rstmt(kids(it)[-1])]]
                arms.append(cur)
            elif k == "DefaultStmt":
                cur = [None, [self.rstmt(kids(it)[-1])]]
                default = cur
            elif k == "BreakStmt":
                cur = None
            else:
                if cur is None:
                    raise Untranslatable("statement between the cases of the switch")
                cur[1].append(self.rstmt(it))
        out = self.seq(default[1]) if default else "RSkip"
        for st, body_ in reversed(arms):
            out = "(RIf (RLineStateIs %d%%nat) %s %s)" % (st, self.seq(body_), out)
        return out

    def rstmt(self, n):
        k = n.get("kind")
        if k == "CompoundStmt":
            return self.seq([self.rstmt(c) for c in kids(n)])
        if k == "NullStmt":
            return "RSkip"
        if k == "ExprWithCleanups":
            return self.rstmt(kids(n)[0])
        if k == "IfStmt":
            ks = kids(n)
            els = ks[2] if len(ks) > 2 else None
            return "(RIf %s %s %s)" % (self.rexp(ks[0]), self.rstmt(ks[1]), self.rstmt(els) if els is not None else "RSkip")
        if k == "SwitchStmt":
            return self.switch(n)
        if k == "ReturnStmt":
            v = strip(kids(n)[0])
            name = v.get("referencedDecl", {}).get("name")
            if v.get("kind") == "DeclRefExpr" and name in RX_VALUES:
                return "(RReturn %s)" % RX_VALUES[name]
            raise Untranslatable("return in receive")
        if k == "DeclStmt":
            vs = kids(n)
            if len(vs) == 1 and vs[0].get("kind") == "VarDecl" and kids(vs[0]):
                name, init = vs[0].get("name"), kids(vs[0])[0]
                if name == self.parsed:
                    return "(RLetParsed %s)" % self.rexp(init)
                if name == "no_content_length":
                    return "(RLetNoCl %s)" % self.rexp(init)
                if name == "rx_size":
                    return "(RLetRx %s)" % self.zexp(init)
                if name == "content_length":
                    return "(RLetCl %s)" % self.zexp(init)
                if name == "required":
                    return "(RLetReq %s)" % self.zexp(init)
                if name == "next":
                    i = strip(init)
                    if i.get("kind") == "BinaryOperator" and i.get("opcode") == "+" and self.ref(kids(i)[0], "iter") and self.ref(kids(i)[1], "required"):
                        return "RLetNext"
            raise Untranslatable("declaration in receive")
        if k == "BinaryOperator" and n.get("opcode") == "=":
            lhs, rhs = kids(n)
            if self.ref(lhs, "iter") and self.ref(rhs, "next"):
                return "RJumpNext"
            if self.ref(lhs, "iter") and self.ref(rhs, "end"):
                return "RJumpEnd"
            if self.ref(lhs, "content_length"):
                return "(RAssignCl %s)" % self.zexp(rhs)
            m = self.this_member(lhs)
            if m == "response_code_":
                r_ = strip(rhs)
                name = r_.get("referencedDecl", {}).get("name")
                if r_.get("kind") == "DeclRefExpr" and r_.get("referencedDecl", {}).get("kind") == "EnumConstantDecl":
                    return "(RSetCode code_%s)" % name
            if m in ("continue_sent_", "is_head_"):
                return "(RSetFlag %d%%nat %s)" % (R_FLAGS.index(m), self.rexp(rhs))
            raise Untranslatable("assignment in receive")
        if k == "CXXMemberCallExpr":
            c = self.chain(n)
            if c:
                obj, calls = c
                names = [x[0] for x in calls]
                if obj == "this" and names == ["clear"]:
                    return "RClear"
                if obj == self.msg and names == ["clear"]:
                    return "RReqClear"
                if obj == "chunk_" and names == ["clear"]:
                    return "RChunkClear"
                if obj == "body_" and names == ["clear"]:
                    return "RBodyClear"
                if obj == "request_" and names == ["set_method"]:
                    ms = named_refs(n, METHODS)
                    if len(ms) == 1:
                        return "(RSetMethod %s)" % ms[0]
                if obj == "body_" and names == ["insert"] and len(calls[0][1]) == 3:
                    pos, a, b = calls[0][1]
                    cp = [self.chain(m) for m in walk(pos)]
                    at_end = any(x and x[0] == "body_" and [t[0] for t in x[1]] == ["end"] for x in cp)
                    if at_end and self.ref(a, "iter") and self.ref(b, "next"):
                        return "RInsertToNext"
                    if at_end and self.ref(a, "iter") and self.ref(b, "end"):
                        return "RInsertRest"
                    ca = [self.chain(m) for m in walk(a)]; cb = [self.chain(m) for m in walk(b)]
                    if at_end and any(x and x[0] == "chunk_" and [t[0] for t in x[1]] == ["data", "begin"] for x in ca) \
                            and any(x and x[0] == "chunk_" and [t[0] for t in x[1]] == ["data", "end"] for x in cb):
                        return "RAppendChunk"
            raise Untranslatable("member call statement in receive")
        raise Untranslatable("statement in receive: " + str(k))


def translate_receiver():
    inst = "via::http::request_receiver<std::string, 8190, 8, 100, 65534, 1024, 8, false>"
    with tempfile.TemporaryDirectory() as d:
        tu = os.path.join(d, "tu.cpp")
        with open(tu, "w") as f:
            f.write('#include "via/http/request.hpp"\n')
            f.write("template class %s;\n" % inst)
            f.write("template via::http::Rx %s::receive<const char*>(const char*&, const char*);\n" % inst)
        p = subprocess.run(["clang++", "-std=c++17", "-I" + os.path.join(REPO, "include"), "-fsyntax-only",
                            "-Xclang", "-ast-dump=json", "-Xclang", "-ast-dump-filter=request", tu],
                           stdout=subprocess.PIPE, stderr=subprocess.PIPE, text=True)
        if p.returncode != 0:
            raise Untranslatable("clang: " + p.stderr[-400:])
        docs = load_docs(p.stdout)
    states = None
    recv = clr = None
    accs = {}
    for dd in docs:
        for n in walk(dd):
            if n.get("kind") == "ClassTemplateSpecializationDecl" and n.get("name") == "request_line" and states is None:
                en = [e for e in kids(n) if e.get("kind") == "EnumDecl" and e.get("name") == "Request"]
                if en:
                    states = {c["name"]: i for i, c in enumerate(x for x in kids(en[0]) if x.get("kind") == "EnumConstantDecl")}
            if n.get("kind") == "ClassTemplateSpecializationDecl" and n.get("name") == "request_receiver":
                for m in walk(n):
                    if m.get("kind") == "CXXMethodDecl" and any(c.get("kind") == "CompoundStmt" for c in kids(m)):
                        if m.get("name") == "receive" and any(c.get("kind") == "TemplateArgument" for c in (m.get("inner") or [])) and recv is None:
                            recv = m
                        if m.get("name") == "clear" and clr is None:
                            clr = m
    if states is None or recv is None or clr is None:
        raise Untranslatable("request_receiver: receive / clear / the states of the request line not found")
    tr = RTr(states)
    body = lambda m: [c for c in kids(m) if c.get("kind") == "CompoundStmt"][0]
    return tr.rstmt(body(recv)), tr.rstmt(body(clr))



def translate_response_receiver():
    inst = "via::http::response_receiver<std::string, 65534, 65534, 100, 65534, 1024, 8, false>"
    with tempfile.TemporaryDirectory() as d:
        tu = os.path.join(d, "tu.cpp")
        with open(tu, "w") as f:
            f.write('#include "via/http/response.hpp"\n')
            f.write("template class %s;\n" % inst)
            f.write("template via::http::Rx %s::receive<const char*>(const char*&, const char*);\n" % inst)
        p = subprocess.run(["clang++", "-std=c++17", "-I" + os.path.join(REPO, "include"), "-fsyntax-only",
                            "-Xclang", "-ast-dump=json", "-Xclang", "-ast-dump-filter=response", tu],
                           stdout=subprocess.PIPE, stderr=subprocess.PIPE, text=True)
        if p.returncode != 0:
            raise Untranslatable("clang: " + p.stderr[-400:])
        docs = load_docs(p.stdout)
    recv = clr = None
    qb = None
    for dd in docs:
        for n in walk(dd):
            if n.get("kind") == "ClassTemplateSpecializationDecl" and n.get("name") == "response_receiver":
                for m in walk(n):
                    if m.get("kind") == "CXXMethodDecl" and any(c.get("kind") == "CompoundStmt" for c in kids(m)):
                        if m.get("name") == "receive" and any(c.get("kind") == "TemplateArgument" for c in (m.get("inner") or [])) and recv is None:
                            recv = m
                        if m.get("name") == "clear" and clr is None:
                            clr = m
    if recv is None or clr is None:
        raise Untranslatable("response_receiver: receive / clear not found")
    # rx_response::is_chunked() must be the header block's query
    qb = method_bodies(docs, "rx_response", ["is_chunked"])
    rs = kids(qb["is_chunked"])
    fn, obj, args = call_name(kids(rs[0])[0]) if len(rs) == 1 and rs[0].get("kind") == "ReturnStmt" else (None, None, None)
    if not (fn == "is_chunked" and obj is not None and obj.get("kind") == "MemberExpr" and obj.get("name") == "headers_" and not args):
        raise Untranslatable("rx_response::is_chunked")
    tr = RTr({}, msg="response_", parsed="response_parsed", limit="max_body_size_")
    body = lambda m: [c for c in kids(m) if c.get("kind") == "CompoundStmt"][0]
    return tr.rstmt(body(recv)), tr.rstmt(body(clr))


# ---- tx_response::message / tx_request::message: how the head is put together, when Content-Length is added ------------
HEADER_NAMES = {"HEADER_CONTENT_LENGTH": "hf_HEADER_CONTENT_LENGTH", "HEADER_TRANSFER_ENCODING": "hf_HEADER_TRANSFER_ENCODING"}


def translate_message_builder(header, cls):
    """{ std::string output(line::to_string()); output += header_string_; bool a(npos == header_string_.find(H1));
         bool b(npos == header_string_.find(H2)); if (a && b [&& content_permitted(status())]) output += content_length(n);
         output += CRLF; return output; }  ->  M_Str.sstmt"""
    with tempfile.TemporaryDirectory() as d:
        tu = os.path.join(d, "tu.cpp")
        with open(tu, "w") as f:
            f.write('#include "%s"\n' % header)
        p = subprocess.run(["clang++", "-std=c++17", "-I" + os.path.join(REPO, "include"), "-fsyntax-only",
                            "-Xclang", "-ast-dump=json", "-Xclang", "-ast-dump-filter=" + cls, tu],
                           stdout=subprocess.PIPE, stderr=subprocess.PIPE, text=True)
        if p.returncode != 0:
            raise Untranslatable("clang: " + p.stderr[-400:])
        docs = load_docs(p.stdout)
    fn = None
    for dd in docs:
        for n in walk(dd):
            if n.get("kind") == "CXXRecordDecl" and n.get("name") == cls:
                for m in kids(n):
                    if m.get("kind") == "CXXMethodDecl" and m.get("name") == "message" and any(c.get("kind") == "CompoundStmt" for c in kids(m)):
                        fn = m
    if fn is None:
        raise Untranslatable("%s::message: no body found" % cls)
    body = [c for c in kids(fn) if c.get("kind") == "CompoundStmt"][0]
    locals_ = []

    def is_out(n):
        n = strip(n)
        return n.get("kind") == "DeclRefExpr" and n.get("referencedDecl", {}).get("name") == "output"

    def this_member(n):
        n = strip(n)
        if n.get("kind") == "MemberExpr" and kids(n) and strip(kids(n)[0]).get("kind") == "CXXThisExpr":
            return n.get("name")
        return None

    def piece(n):
        """what is appended to / put into output"""
        n = strip(n)
        while n.get("kind") in ("MaterializeTemporaryExpr", "CXXBindTemporaryExpr", "CXXConstructExpr") and kids(n):
            n = strip(kids(n)[0])
        if this_member(n) == "header_string_":
            return "SHeaderString"
        if n.get("kind") == "DeclRefExpr" and n.get("referencedDecl", {}).get("name") == "CRLF":
            return "SCRLF"
        fnm, obj, args = call_name(n)
        if fnm == "to_string" and obj is not None and obj.get("kind") == "CXXThisExpr" and not args:
            return "SLineString"
        if n.get("kind") == "CallExpr":
            f = strip(kids(n)[0]); name = f.get("referencedDecl", {}).get("name"); a = kids(n)[1:]
            if name == "content_length" and len(a) == 1 and strip(a[0]).get("kind") == "DeclRefExpr" and strip(a[0]).get("referencedDecl", {}).get("name") == "content_length":
                return "SContentLengthLine"
        raise Untranslatable("%s::message: a piece of the output" % cls)

    def bexp(n):
        n = strip(n)
        k = n.get("kind")
        if k == "BinaryOperator" and n.get("opcode") == "&&":
            a, b = kids(n)
            return "(SAndB %s %s)" % (bexp(a), bexp(b))
        if k == "DeclRefExpr" and n.get("referencedDecl", {}).get("name") in locals_:
            return "(SLocal %d%%nat)" % locals_.index(n["referencedDecl"]["name"])
        if k == "BinaryOperator" and n.get("opcode") == "==":
            npos = [m for m in walk(n) if m.get("kind") == "DeclRefExpr" and m.get("referencedDecl", {}).get("name") == "npos"]
            finds = [call_name(m) for m in walk(n)]
            hn = named_refs(n, HEADER_NAMES)
            if npos and len(hn) == 1 and any(c[0] == "find" and this_member(c[1]) == "header_string_" for c in finds if c[0]):
                return "(SNotFound %s)" % hn[0]
        if k == "CallExpr":
            f = strip(kids(n)[0]); name = f.get("referencedDecl", {}).get("name"); a = kids(n)[1:]
            if name == "content_permitted" and len(a) == 1:
                fnm, obj, args = call_name(a[0])
                if fnm == "status" and obj is not None and obj.get("kind") == "CXXThisExpr":
                    return "SContentPermitted"
        raise Untranslatable("%s::message: a condition" % cls)

    def append(n):
        """output += X (std::string::operator+=)"""
        n = strip(n)
        if n.get("kind") == "CXXOperatorCallExpr":
            ks = kids(n)
            if any(m.get("kind") == "DeclRefExpr" and m.get("referencedDecl", {}).get("name") == "operator+=" for m in walk(ks[0])) and is_out(ks[1]):
                return "(SAppendOut %s)" % piece(ks[2])
        raise Untranslatable("%s::message: a statement" % cls)

    out = []
    for stn in kids(body):
        k = stn.get("kind")
        if k == "DeclStmt":
            v = kids(stn)[0]
            if v.get("name") == "output":
                out.append("(SInitOut %s)" % piece(kids(v)[0]))
            elif v.get("type", {}).get("qualType") == "bool":
                out.append("(SLetB %d%%nat %s)" % (len(locals_), bexp(kids(v)[0])))
                locals_.append(v.get("name"))
            else:
                raise Untranslatable("%s::message: a declaration" % cls)
        elif k == "IfStmt":
            ks = kids(stn)
            if len(ks) != 2:
                raise Untranslatable("%s::message: if with else" % cls)
            t = ks[1]
            t = kids(t)[0] if t.get("kind") == "CompoundStmt" and len(kids(t)) == 1 else t
            out.append("(SIfS %s %s)" % (bexp(ks[0]), append(t)))
        elif k == "ReturnStmt":
            r = strip(kids(stn)[0])
            while r.get("kind") in ("CXXConstructExpr", "MaterializeTemporaryExpr", "CXXBindTemporaryExpr") and kids(r):
                r = strip(kids(r)[0])
            if not is_out(r):
                raise Untranslatable("%s::message: return" % cls)
            out.append("SReturnOut")
        else:
            out.append(append(stn))
    res = out[-1]
    for x in reversed(out[:-1]):
        res = "(SSeqS %s %s)" % (x, res)
    return res


# ---- request_line / response_line / chunk_header / last_chunk ::to_string() ---------------------------------------------
TO_STRING = [dict(name="request_line", header="via/http/request.hpp", strs=["method_", "uri_"]),
             dict(name="response_line", header="via/http/response.hpp", strs=["reason_phrase_"]),
             dict(name="chunk_header", header="via/http/chunk.hpp", strs=["hex_size_", "extension_"]),
             dict(name="last_chunk", header="via/http/chunk.hpp", strs=["extension_", "trailer_string_"])]


def translate_to_string(header, cls, strs):
    """{ std::string output(e0); [if (!m.empty())] output += e1; ... return output; }  ->  M_Str.xstmt"""
    with tempfile.TemporaryDirectory() as d:
        tu = os.path.join(d, "tu.cpp")
        with open(tu, "w") as f:
            f.write('#include "%s"\n' % header)
        p = subprocess.run(["clang++", "-std=c++17", "-I" + os.path.join(REPO, "include"), "-fsyntax-only",
                            "-Xclang", "-ast-dump=json", "-Xclang", "-ast-dump-filter=" + cls, tu],
                           stdout=subprocess.PIPE, stderr=subprocess.PIPE, text=True)
        if p.returncode != 0:
            raise Untranslatable("clang: " + p.stderr[-400:])
        docs = load_docs(p.stdout)
    fn = None
    for dd in docs:
        for n in walk(dd):
            if n.get("kind") == "CXXRecordDecl" and n.get("name") == cls and fn is None:
                for m in kids(n):
                    if m.get("kind") == "CXXMethodDecl" and m.get("name") == "to_string" and any(c.get("kind") == "CompoundStmt" for c in kids(m)):
                        fn = m
    if fn is None:
        raise Untranslatable("%s::to_string: no body found" % cls)
    body = [c for c in kids(fn) if c.get("kind") == "CompoundStmt"][0]
    what = "%s::to_string" % cls

    def is_out(n):
        n = strip(n)
        return n.get("kind") == "DeclRefExpr" and n.get("referencedDecl", {}).get("name") == "output"

    def this_member(n):
        n = strip(n)
        if n.get("kind") == "MemberExpr" and kids(n) and strip(kids(n)[0]).get("kind") == "CXXThisExpr":
            return n.get("name")
        return None

    def unwrap(n):
        n = strip(n)
        while n.get("kind") in ("MaterializeTemporaryExpr", "CXXBindTemporaryExpr") and kids(n):
            n = strip(kids(n)[0])
        # a copy / move / const char* construction of a std::string from one argument
        while n.get("kind") == "CXXConstructExpr" and len([a for a in kids(n) if a.get("kind") != "CXXDefaultArgExpr"]) == 1:
            n = strip([a for a in kids(n) if a.get("kind") != "CXXDefaultArgExpr"][0])
            while n.get("kind") in ("MaterializeTemporaryExpr", "CXXBindTemporaryExpr") and kids(n):
                n = strip(kids(n)[0])
        return n

    def callee_name(n):
        f = strip(kids(n)[0])
        return f.get("referencedDecl", {}).get("name") if f.get("kind") == "DeclRefExpr" else None

    def xexp(n):
        n = unwrap(n)
        k = n.get("kind")
        m = this_member(n)
        if m is not None:
            if m not in strs:
                raise Untranslatable("%s: member %s" % (what, m))
            return "(XMem %d%%nat)" % strs.index(m)
        if k == "CharacterLiteral":
            v = n.get("value")
            if not isinstance(v, int) or not 0 < v < 128:
                raise Untranslatable("%s: a character literal" % what)
            return "(XChr %d)" % v
        if k == "StringLiteral":
            v = n.get("value", "")
            if len(v) < 2 or v[0] != '"' or v[-1] != '"' or "\\" in v[1:-1] or any(not 32 <= ord(ch) < 127 for ch in v[1:-1]):
                raise Untranslatable("%s: a string literal" % what)
            return "(XLit [%s])" % "; ".join(str(ord(ch)) for ch in v[1:-1])
        if k == "DeclRefExpr" and n.get("referencedDecl", {}).get("name") == "CRLF":
            return "XCrLf"
        if k == "CXXOperatorCallExpr" and callee_name(n) == "operator+" and len(kids(n)) == 3:
            return "(XCat %s %s)" % (xexp(kids(n)[1]), xexp(kids(n)[2]))
        if k == "CallExpr" and callee_name(n) == "http_version" and [this_member(a) for a in kids(n)[1:]] == ["major_version_", "minor_version_"]:
            return "XHttpVersion"
        if k == "CallExpr" and callee_name(n) == "to_string" and [this_member(a) for a in kids(n)[1:]] == ["status_"]:
            return "XStatusDec"
        raise Untranslatable("%s: an expression (%s)" % (what, k))

    def append(n):
        n = strip(n)
        if n.get("kind") == "CXXOperatorCallExpr" and callee_name(n) == "operator+=" and len(kids(n)) == 3 and is_out(kids(n)[1]):
            return "(XAppend %s)" % xexp(kids(n)[2])
        raise Untranslatable("%s: a statement" % what)

    def not_empty(n):
        n = strip(n)
        if n.get("kind") == "UnaryOperator" and n.get("opcode") == "!":
            fnm, obj, args = call_name(kids(n)[0])
            if fnm == "empty" and obj is not None and not args and this_member(obj) in strs:
                return strs.index(this_member(obj))
        raise Untranslatable("%s: a condition" % what)

    out = []
    for stn in kids(body):
        k = stn.get("kind")
        if k == "DeclStmt":
            v = kids(stn)[0]
            if len(kids(stn)) != 1 or v.get("name") != "output" or out:
                raise Untranslatable("%s: a declaration" % what)
            out.append("(XInit %s)" % xexp(kids(v)[0]))
        elif k == "IfStmt":
            ks = kids(stn)
            if len(ks) != 2:
                raise Untranslatable("%s: if with else" % what)
            t = ks[1]
            t = kids(t)[0] if t.get("kind") == "CompoundStmt" and len(kids(t)) == 1 else t
            out.append("(XIfNotEmpty %d%%nat %s)" % (not_empty(ks[0]), append(t)))
        elif k == "ReturnStmt":
            if not is_out(unwrap(kids(stn)[0])):
                raise Untranslatable("%s: return" % what)
            out.append("XReturn")
        else:
            out.append(append(stn))
    if not out or not out[0].startswith("(XInit"):
        raise Untranslatable("%s: no output variable" % what)
    res = out[-1]
    for x in reversed(out[:-1]):
        res = "(XSeq %s %s)" % (x, res)
    return res


# ---- header_field::to_header(name, value) / content_length(size) / chunked_encoding(): { return e; } ---------------------
HF_FUNCS = [dict(name="to_header", params=["name", "value"], num=None),
            dict(name="content_length", params=[], num="size"),
            dict(name="chunked_encoding", params=[], num=None)]


def translate_hf_function(fname, params, num):
    """inline std::string f(params) { return e; }  ->  M_Str.xstmt (XSeq (XInit e) XReturn); string-valued parameters are
       numbered in order, the size_t parameter is the numeric slot, named constants are the regenerated tables' hf_ names"""
    with tempfile.TemporaryDirectory() as d:
        tu = os.path.join(d, "tu.cpp")
        with open(tu, "w") as f:
            f.write('#include "via/http/header_field.hpp"\n')
        p = subprocess.run(["clang++", "-std=c++17", "-I" + os.path.join(REPO, "include"), "-fsyntax-only",
                            "-Xclang", "-ast-dump=json", "-Xclang", "-ast-dump-filter=header_field::" + fname, tu],
                           stdout=subprocess.PIPE, stderr=subprocess.PIPE, text=True)
        if p.returncode != 0:
            raise Untranslatable("clang: " + p.stderr[-400:])
        docs = load_docs(p.stdout)
    what = "header_field::%s" % fname
    want = params + ([num] if num else [])
    fns = []
    for dd in docs:
        for n in walk(dd):
            if n.get("kind") == "FunctionDecl" and n.get("name") == fname and any(c.get("kind") == "CompoundStmt" for c in kids(n)):
                ps = [c for c in kids(n) if c.get("kind") == "ParmVarDecl"]
                if [c.get("name") for c in ps] == want and all(("string_view" in c.get("type", {}).get("qualType", "")) == (c.get("name") in params) for c in ps):
                    fns.append(n)
    if len(fns) != 1:
        raise Untranslatable("%s: %d definitions with parameters %s" % (what, len(fns), want))
    body = kids([c for c in kids(fns[0]) if c.get("kind") == "CompoundStmt"][0])
    if len(body) != 1 or body[0].get("kind") != "ReturnStmt":
        raise Untranslatable("%s is not a single return" % what)
    import re
    consts = set(re.findall(r"^Definition (hf_[A-Z0-9_]+) ", open(os.path.join(os.path.dirname(os.path.dirname(os.path.abspath(__file__))), "coq", "Gen_Tables.v")).read(), re.M))

    def unwrap(n):
        n = strip(n)
        while True:
            if n.get("kind") in ("MaterializeTemporaryExpr", "CXXBindTemporaryExpr") and kids(n):
                n = strip(kids(n)[0])
            elif n.get("kind") in ("CXXConstructExpr", "CXXTemporaryObjectExpr") and len([a for a in kids(n) if a.get("kind") != "CXXDefaultArgExpr"]) == 1:
                n = strip([a for a in kids(n) if a.get("kind") != "CXXDefaultArgExpr"][0])
            else:
                return n

    def callee_name(n):
        f = strip(kids(n)[0])
        return f.get("referencedDecl", {}).get("name") if f.get("kind") == "DeclRefExpr" else None

    def xexp(n):
        n = unwrap(n)
        k = n.get("kind")
        if k == "DeclRefExpr":
            nm = n.get("referencedDecl", {}).get("name"); rk = n.get("referencedDecl", {}).get("kind")
            if rk == "ParmVarDecl" and nm in params:
                return "(XMem %d%%nat)" % params.index(nm)
            if nm == "CRLF":
                return "XCrLf"
            if rk == "VarDecl" and "hf_" + nm in consts:
                return "(XLit hf_%s)" % nm
        if k == "CXXOperatorCallExpr" and callee_name(n) == "operator+" and len(kids(n)) == 3:
            return "(XCat %s %s)" % (xexp(kids(n)[1]), xexp(kids(n)[2]))
        if k == "CallExpr" and callee_name(n) == "to_string" and len(kids(n)) == 2:
            a = strip(kids(n)[1])
            if num and a.get("kind") == "DeclRefExpr" and a.get("referencedDecl", {}).get("name") == num and a.get("referencedDecl", {}).get("kind") == "ParmVarDecl":
                return "XNumDec"
        raise Untranslatable("%s: an expression (%s)" % (what, k))

    return "(XSeq (XInit %s) XReturn)" % xexp(kids(body[0])[0])


CLASSES = [
    dict(name="rl", cls="request_line", header="via/http/request.hpp", enum="Request", state="state_", param="c",
         strs=["method_", "uri_"], nums=["ws_count_", "major_version_", "minor_version_", "valid_", "fail_"],
         limits=["MAX_URI_LENGTH", "MAX_METHOD_LENGTH", "MAX_WHITESPACE_CHARS"], accessors=["valid", "fail"],
         inst={"lax": "via::http::request_line<8190, 8, 8, false>", "strict": "via::http::request_line<8190, 8, 8, true>"}),
    dict(name="sl", cls="response_line", header="via/http/response.hpp", enum="Response", state="state_", param="c",
         strs=["reason_phrase_"], nums=["ws_count_", "major_version_", "minor_version_", "status_", "status_read_", "valid_", "fail_"],
         limits=["MAX_STATUS_NUMBER", "MAX_REASON_LENGTH", "MAX_WHITESPACE_CHARS"], accessors=["valid", "fail"],
         inst={"lax": "via::http::response_line<65534, 65534, 254, false>", "strict": "via::http::response_line<65534, 65534, 254, true>"}),
    dict(name="fl", cls="field_line", header="via/http/headers.hpp", enum="Header", state="state_", param="c",
         strs=["name_", "value_"], nums=["length_", "ws_count_", "fail_"],
         limits=["MAX_LINE_LENGTH", "MAX_WHITESPACE_CHARS"], accessors=["started", "fail", "length", "name", "value"],
         inst={"lax": "via::http::field_line<1024, 8, false>", "strict": "via::http::field_line<1024, 8, true>"}),
    dict(name="ck", cls="chunk_header", header="via/http/chunk.hpp", enum="Chunk", state="state_", param="c",
         strs=["hex_size_", "extension_"], nums=["length_", "ws_count_", "size_", "size_read_", "max_chunk_size_", "valid_", "fail_"],
         limits=["MAX_LINE_LENGTH", "MAX_WHITESPACE_CHARS"], accessors=["valid", "size", "is_last", "fail"],
         inst={"lax": "via::http::chunk_header<1024, 8, false>", "strict": "via::http::chunk_header<1024, 8, true>"}),
]


def translate_class(cfg):
    with tempfile.TemporaryDirectory() as d:
        tu = os.path.join(d, "tu.cpp")
        with open(tu, "w") as f:
            f.write('#include "%s"\n' % cfg["header"])
            for v in cfg["inst"].values():
                f.write("template class %s;\n" % v)
                f.write("template bool %s::parse<const char*>(const char*&, const char*);\n" % v)
        p = subprocess.run(["clang++", "-std=c++17", "-I" + os.path.join(REPO, "include"), "-fsyntax-only",
                            "-Xclang", "-ast-dump=json", "-Xclang", "-ast-dump-filter=" + cfg["cls"], tu],
                           stdout=subprocess.PIPE, stderr=subprocess.PIPE, text=True)
        if p.returncode != 0:
            raise Untranslatable("clang: " + p.stderr[-400:])
        docs = load_docs(p.stdout)
    specs = []
    clsnode = {}
    enum_index = None
    for dd in docs:
        for n in walk(dd):
            if n.get("kind") == "ClassTemplateSpecializationDecl" and n.get("name") == cfg["cls"]:
                ms = [m for m in kids(n) if m.get("kind") == "CXXMethodDecl" and m.get("name") == "parse_char" and any(c.get("kind") == "CompoundStmt" for c in kids(m))]
                cl = [m for m in kids(n) if m.get("kind") == "CXXMethodDecl" and m.get("name") == "clear" and any(c.get("kind") == "CompoundStmt" for c in kids(m))]
                pr = [m for m in walk(n) if m.get("kind") == "CXXMethodDecl" and m.get("name") == "parse" and any(c.get("kind") == "CompoundStmt" for c in kids(m))
                      and any(c.get("kind") == "TemplateArgument" for c in (m.get("inner") or []))]
                if not ms or not cl or not pr:
                    continue
                args = [a.get("value") for a in (n.get("inner") or []) if a.get("kind") == "TemplateArgument"]
                en = [e for e in kids(n) if e.get("kind") == "EnumDecl" and e.get("name") == cfg["enum"]]
                if en:
                    enum_index = {c["name"]: i for i, c in enumerate(x for x in kids(en[0]) if x.get("kind") == "EnumConstantDecl")}
                specs.append((args, ms[0], cl[0], pr[0])); clsnode[id(pr[0])] = n
    if enum_index is None or len(specs) != len(cfg["inst"]):
        raise Untranslatable("%s: expected %d instantiations with an enumeration, found %d" % (cfg["cls"], len(cfg["inst"]), len(specs)))
    out = {}
    for args, m, clr, prs in specs:
        strict = args[-1] not in (0, "0", False, "false")
        body = [c for c in kids(m) if c.get("kind") == "CompoundStmt"][0]
        consts = {}
        for v in walk(body):
            if v.get("kind") == "VarDecl" and v.get("constexpr"):
                for lit in walk(v):
                    if lit.get("kind") == "IntegerLiteral":
                        consts[v["name"]] = int(lit["value"]); break
        tr = Tr(cfg, enum_index, consts)
        out["strict" if strict else "lax"] = tr.stmt(body)
        out["clear"] = Tr(cfg, enum_index).stmt([c for c in kids(clr) if c.get("kind") == "CompoundStmt"][0])
        loop = LTr(cfg, enum_index).lstmt([c for c in kids(prs) if c.get("kind") == "CompoundStmt"][0])
        if out.get("parse", loop) != loop:
            raise Untranslatable("%s::parse differs between the instantiations" % cfg["cls"])
        out["parse"] = loop
        if cfg.get("accessors"):
            tr0 = Tr(cfg, enum_index)
            acc = {}
            for an in cfg["accessors"]:
                ms2 = [m for m in kids(clsnode[id(prs)]) if m.get("kind") == "CXXMethodDecl" and m.get("name") == an and any(c.get("kind") == "CompoundStmt" for c in kids(m))]
                if len(ms2) != 1:
                    raise Untranslatable("%s::%s" % (cfg["cls"], an))
                b = [c for c in kids(ms2[0]) if c.get("kind") == "CompoundStmt"][0]
                rs = kids(b)
                if len(rs) != 1 or rs[0].get("kind") != "ReturnStmt":
                    raise Untranslatable("%s::%s is not a single return" % (cfg["cls"], an))
                e = kids(rs[0])[0]
                if an in ("started", "fail", "valid", "is_last"):
                    acc[an] = tr0.bexp(e)
                elif an in ("length", "size"):
                    acc[an] = tr0.nexp(e)
                    tr0.inline = dict(getattr(tr0, "inline", {})); tr0.inline[an] = acc[an]
                else:
                    m = tr0.member(e)
                    if m not in cfg["strs"]:
                        raise Untranslatable("%s::%s returns %s" % (cfg["cls"], an, m))
                    acc[an] = "%d%%nat" % cfg["strs"].index(m)
            if out.get("acc", acc) != acc:
                raise Untranslatable("%s accessors differ between the instantiations" % cfg["cls"])
            out["acc"] = acc
    return enum_index, out


def main(dest):
    lines = ["(* Gen_Parse.v — GENERATED by translate/parse.py from the headers under include/via/http: do not edit. *)",
             "From Via Require Import M_Char M_Parse M_Imp M_Loop M_Hdr M_Msg M_Chunk M_Query M_Recv M_Str.", "From Coq Require Import List NArith.", "Import ListNotations.", "Local Open Scope N_scope.", ""]
    for cfg in CLASSES:
        enum_index, progs = translate_class(cfg)
        names = sorted(enum_index, key=enum_index.get)
        lines.append("(* %s::parse_char — states: %s *)" % (cfg["cls"], ", ".join("%d %s" % (enum_index[x], x) for x in names)))
        lines.append("Definition %s_states : nat := %d%%nat." % (cfg["name"], len(names)))
        for variant in ("lax", "strict"):
            lines.append("Definition %s_src_%s : stmt :=\n  %s." % (cfg["name"], variant, progs[variant]))
        lines.append("(* %s::clear *)" % cfg["cls"])
        lines.append("Definition %s_clear_src : stmt :=\n  %s." % (cfg["name"], progs["clear"]))
        lines.append("(* %s::parse(iter, end) *)" % cfg["cls"])
        lines.append("Definition %s_parse_src : lstmt :=\n  %s." % (cfg["name"], progs["parse"]))
        if "acc" in progs:
            a = progs["acc"]
            kinds = {"started": "bexp", "fail": "bexp", "valid": "bexp", "is_last": "bexp", "length": "nexp", "size": "nexp", "name": "nat", "value": "nat"}
            lines.append("(* %s: %s *)" % (cfg["cls"], ", ".join(x + "()" for x in cfg["accessors"])))
            for an in cfg["accessors"]:
                lines.append("Definition %s_%s_src : %s := %s." % (cfg["name"], an, kinds[an], a[an]))
        lines.append("")
    lines.append("(* message_headers::parse(iter, end) *)")
    hd_parse_t, hd_clear_t = translate_headers()
    lines.append("Definition hd_parse_src : hstmt :=\n  %s." % hd_parse_t)
    lines.append("(* message_headers::clear() *)")
    lines.append("Definition hd_clear_src : hstmt :=\n  %s." % hd_clear_t)
    lines.append("(* message_headers::valid() *)")
    lines.append("Definition hd_valid_src : hexp := %s." % translate_headers_valid())
    lines.append("(* message_headers::fail() *)")
    lines.append("Definition hd_fail_src : hexp := %s." % translate_headers_valid("fail"))
    lines.append("(* rx_request::parse(iter, end), rx_response::parse(iter, end) *)")
    rq_p, rq_c = translate_message("via/http/request.hpp", "rx_request", "via::http::rx_request<8190, 8, 100, 65534, 1024, 8, false>")
    rs_p, rs_c = translate_message("via/http/response.hpp", "rx_response", "via::http::rx_response<65534, 65534, 100, 65534, 1024, 8, false>")
    lines.append("Definition rq_parse_src : mstmt :=\n  %s." % rq_p)
    lines.append("Definition rs_parse_src : mstmt :=\n  %s." % rs_p)
    lines.append("(* rx_request::clear(), rx_response::clear() *)")
    lines.append("Definition rq_clear_src : mstmt :=\n  %s." % rq_c)
    lines.append("Definition rs_clear_src : mstmt :=\n  %s." % rs_c)
    p0, pp0, sbody, sfinal = translate_split()
    lines.append("(* are_headers_split: the store is [prev; pprev], the character is *iter *)")
    lines.append("Definition split_init_src : list N := [%d; %d]." % (p0, pp0))
    lines.append("Definition split_body_src : stmt :=\n  %s." % sbody)
    lines.append("Definition split_final_src : bool := %s." % sfinal)
    hq = translate_header_queries()
    lines.append("(* message_headers::is_chunked / close_connection / expect_continue *)")
    for fn in ("is_chunked", "close_connection", "expect_continue"):
        lines.append("Definition hd_%s_src : hquery := %s." % (fn, hq[fn]))
    rq = translate_request_queries(hq)
    lines.append("(* rx_request::keep_alive / missing_host_header / expect_continue / is_chunked / is_head / is_trace *)")
    for fn in ("keep_alive", "missing_host_header", "expect_continue", "is_chunked", "is_head", "is_trace"):
        lines.append("Definition rq_%s_src : rqexp := %s." % (fn, rq[fn]))
    ch = translate_chunk()
    lines.append("(* rx_chunk::parse(iter, end) *)")
    lines.append("Definition rc_parse_src_lax : cstmt :=\n  %s." % ch["lax"])
    lines.append("Definition rc_parse_src_strict : cstmt :=\n  %s." % ch["strict"])
    lines.append("(* rx_chunk::clear() *)")
    lines.append("Definition rc_clear_src : cstmt :=\n  %s." % ch["clear"])
    lines.append("(* rx_chunk::fail() *)")
    lines.append("Definition rc_fail_src : cexp := %s." % ch["fail"])
    rv_recv, rv_clear = translate_receiver()
    lines.append("(* request_receiver::receive(iter, end) and clear() *)")
    lines.append("Definition rv_receive_src : rstmt :=\n  %s." % rv_recv)
    lines.append("Definition rv_clear_src : rstmt :=\n  %s." % rv_clear)
    cv_recv, cv_clear = translate_response_receiver()
    lines.append("(* rx_response::is_chunked() is the header block's query *)")
    lines.append("Definition rp_is_chunked_src : rqexp := (RQHdr hd_is_chunked_src).")
    lines.append("(* response_receiver::receive(iter, end) and clear() *)")
    lines.append("Definition cv_receive_src : rstmt :=\n  %s." % cv_recv)
    lines.append("Definition cv_clear_src : rstmt :=\n  %s." % cv_clear)
    lines.append("(* tx_response::message(content_length), tx_request::message(content_length) *)")
    lines.append("Definition tx_response_message_src : sstmt :=\n  %s." % translate_message_builder("via/http/response.hpp", "tx_response"))
    lines.append("Definition tx_request_message_src : sstmt :=\n  %s." % translate_message_builder("via/http/request.hpp", "tx_request"))
    lines.append("(* request_line / response_line / chunk_header / last_chunk ::to_string() *)")
    for t in TO_STRING:
        lines.append("Definition %s_to_string_src : xstmt :=\n  %s." % (t["name"], translate_to_string(t["header"], t["name"], t["strs"])))
    lines.append("(* header_field::to_header(name, value) / content_length(size) / chunked_encoding() *)")
    for t in HF_FUNCS:
        lines.append("Definition hf_%s_src : xstmt :=\n  %s." % (t["name"], translate_hf_function(t["name"], t["params"], t["num"])))
    txt = "\n".join(lines) + "\n"
    # unchanged output keeps its time stamp: make then has nothing to rebuild
    if not os.path.exists(dest) or open(dest).read() != txt:
        with open(dest, "w") as f:
            f.write(txt)


if __name__ == "__main__":
    dest = sys.argv[1] if len(sys.argv) > 1 else os.path.join(os.path.dirname(os.path.dirname(os.path.abspath(__file__))), "coq", "Gen_Parse.v")
    try:
        main(dest)
    except Untranslatable as e:
        sys.stderr.write("parse.py: the source uses a construct the translator does not understand: %s\n" % e)
        sys.exit(1)
