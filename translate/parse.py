#!/usr/bin/env python3
"""Regenerate coq/Gen_Parse.v (translate/parse.py): the bodies of the character-level parser functions (parse_char) of the line parsers,
read off clang's AST of explicit instantiations and written as terms of the small imperative language of
coq/M_Imp.v.  The translator understands only the constructs listed in M_Imp.v; anything else raises Untranslatable
(the check then reports the broken obligation).  What the statements mean is defined in Coq (M_Imp.exec); that the
hand-written model functions (M_Parse.v) compute the same as the translated source is proved in P_Imp.v."""
import json, os, subprocess, sys, tempfile

REPO = os.environ.get("VERIF_REPO", "/repo")


class Untranslatable(Exception):
    pass


PREDS = {"isupper": "PUpper", "isblank": "PBlank", "isdigit": "PDigit", "isxdigit": "PXdigit", "is_end_of_line": "PEol",
         "is_token": "PToken", "iscntrl": "PCntrl", "isalpha": "PAlpha"}
CMPS = {">": "CGt", "<": "CLt", ">=": "CGe", "<=": "CLe", "==": "CEq", "!=": "CNe"}


def load_docs(txt):
    dec = json.JSONDecoder(); docs = []; i = 0
    while i < len(txt):
        while i < len(txt) and txt[i] != "{":
            i += 1
        if i >= len(txt):
            break
        o, j = dec.raw_decode(txt, i); docs.append(o); i = j
    return docs


def kids(n):
    return [c for c in (n.get("inner") or []) if isinstance(c, dict) and c.get("kind")]


def walk(n):
    yield n
    for c in kids(n):
        yield from walk(c)


def strip(n):
    while n.get("kind") in ("ImplicitCastExpr", "ParenExpr", "ConstantExpr", "ExprWithCleanups", "CXXFunctionalCastExpr", "CStyleCastExpr", "CXXStaticCastExpr"):
        n = kids(n)[0]
    return n


class Tr:
    def __init__(self, cfg, enum_index, consts=None):
        self.cfg, self.enum, self.consts = cfg, enum_index, consts or {}

    def member(self, n):
        n = strip(n)
        if n.get("kind") == "MemberExpr" and kids(n) and strip(kids(n)[0]).get("kind") == "CXXThisExpr":
            return n.get("name")
        return None

    def is_c(self, n):
        n = strip(n)
        return n.get("kind") == "DeclRefExpr" and n.get("referencedDecl", {}).get("name") == self.cfg["param"]

    def nexp(self, n):
        n = strip(n)
        k = n.get("kind")
        if k in ("IntegerLiteral", "CharacterLiteral"):
            return "(NLit %d)" % int(n["value"])
        if k == "SubstNonTypeTemplateParmExpr":
            name = [c for c in (n.get("inner") or []) if c.get("kind") == "NonTypeTemplateParmDecl"][0]["name"]
            if name not in self.cfg["limits"]:
                raise Untranslatable("template parameter " + name)
            return "(NLim %d%%nat)" % self.cfg["limits"].index(name)
        if self.is_c(n):
            return "NChar"
        m = self.member(n)
        if m is not None:
            if m in self.cfg["nums"]:
                return "(NNum %d%%nat)" % self.cfg["nums"].index(m)
            raise Untranslatable("member used as a number: " + m)
        if k == "CXXBoolLiteralExpr":
            return "(NLit %d)" % (1 if n.get("value") else 0)
        if k == "DeclRefExpr" and n.get("referencedDecl", {}).get("name") in self.consts:
            return "(NLit %d)" % self.consts[n["referencedDecl"]["name"]]
        if k == "CallExpr":
            f = strip(kids(n)[0]); name = f.get("referencedDecl", {}).get("name"); args = kids(n)[1:]
            if name == "tolower" and len(args) == 1:
                return "(NLower %s)" % self.nexp(args[0])
            if name == "read_digit" and len(args) == 1 and self.is_c(args[0]):
                return "(NSub NChar (NLit 48))"
            if name == "from_hex_string" and len(args) == 1:
                for m in walk(args[0]):
                    mm = self.member(m)
                    if mm in self.cfg["strs"]:
                        return "(NFromHex %d%%nat)" % self.cfg["strs"].index(mm)
            raise Untranslatable("call of %s in a numeric expression" % name)
        if k == "CXXMemberCallExpr":
            callee = kids(n)[0]
            if callee.get("kind") == "MemberExpr" and callee.get("name") == "size" and len(kids(n)) == 1:
                obj = self.member(kids(callee)[0])
                if obj in self.cfg["strs"]:
                    return "(NSize %d%%nat)" % self.cfg["strs"].index(obj)
            raise Untranslatable("member call in a numeric expression")
        if k == "UnaryOperator" and n.get("opcode") == "++" and not n.get("isPostfix"):
            m = self.member(kids(n)[0])
            if m in self.cfg["nums"]:
                return "(NPreInc %d%%nat)" % self.cfg["nums"].index(m)
            raise Untranslatable("++ on " + str(m))
        if k == "BinaryOperator" and n.get("opcode") in ("+", "-", "*"):
            a, b = kids(n)
            return "(%s %s %s)" % ({"+": "NAdd", "-": "NSub", "*": "NMul"}[n["opcode"]], self.nexp(a), self.nexp(b))
        raise Untranslatable("numeric expression " + str(k))

    def bexp(self, n):
        n = strip(n)
        k = n.get("kind")
        if k == "CXXBoolLiteralExpr":
            return "(BConst %s)" % ("true" if n.get("value") else "false")
        if k == "SubstNonTypeTemplateParmExpr":
            for m in walk(n):
                if m.get("kind") == "CXXBoolLiteralExpr":
                    return "(BConst %s)" % ("true" if m.get("value") else "false")
            raise Untranslatable("template parameter used as a condition")
        if k == "CallExpr":
            f = strip(kids(n)[0])
            name = f.get("referencedDecl", {}).get("name")
            args = kids(n)[1:]
            if name in PREDS and len(args) == 1 and self.is_c(args[0]):
                return "(BPred %s)" % PREDS[name]
            raise Untranslatable("call of " + str(name))
        if k == "UnaryOperator" and n.get("opcode") == "!":
            return "(BNot %s)" % self.bexp(kids(n)[0])
        if k == "BinaryOperator" and n.get("opcode") in ("&&", "||"):
            a, b = kids(n)
            return "(%s %s %s)" % ("BAnd" if n["opcode"] == "&&" else "BOr", self.bexp(a), self.bexp(b))
        if k == "BinaryOperator" and n.get("opcode") in CMPS:
            a, b = kids(n)
            sa, sb = strip(a), strip(b)
            if n["opcode"] == "==":
                for x, y in ((sa, sb), (sb, sa)):
                    if x.get("kind") == "CharacterLiteral" and self.is_c(y):
                        return "(BCharIs %d)" % int(x["value"])
            return "(BCmp %s %s %s)" % (CMPS[n["opcode"]], self.nexp(a), self.nexp(b))
        if k == "CXXMemberCallExpr":
            callee = kids(n)[0]
            if callee.get("kind") == "MemberExpr" and callee.get("name") == "empty":
                obj = self.member(kids(callee)[0])
                if obj in self.cfg["strs"]:
                    return "(BEmpty %d%%nat)" % self.cfg["strs"].index(obj)
            raise Untranslatable("member call in a condition")
        m = self.member(n)
        if m is not None and m in self.cfg["nums"]:
            return "(BFlag %d%%nat)" % self.cfg["nums"].index(m)
        raise Untranslatable("condition " + str(k))

    def seq(self, l):
        l = [x for x in l if x != "SSkip"]
        if not l:
            return "SSkip"
        out = l[-1]
        for x in reversed(l[:-1]):
            out = "(SSeq %s %s)" % (x, out)
        return out

    def stmt(self, n):
        k = n.get("kind")
        if k == "CompoundStmt":
            return self.seq([self.stmt(c) for c in kids(n)])
        if k in ("NullStmt", "DeclStmt"):
            return "SSkip"
        if k == "AttributedStmt":
            return self.seq([self.stmt(c) for c in kids(n) if c.get("kind") != "FallThroughAttr"])
        if k == "IfStmt":
            ks = kids(n)
            if n.get("isConstexpr"):
                cond = ks[0]
                val = None
                for m in walk(cond):
                    if m.get("kind") == "ConstantExpr" and "value" in m:
                        val = m["value"]; break
                    if m.get("kind") == "CXXBoolLiteralExpr":
                        val = "true" if m.get("value") else "false"; break
                if val is None:
                    raise Untranslatable("if constexpr without a value")
                taken = str(val).lower() in ("true", "1")
                branches = ks[1:]
                if n.get("hasElse"):
                    return self.stmt(branches[0] if taken else branches[1]) if len(branches) == 2 else self.stmt(branches[0])
                return self.stmt(branches[0]) if taken and branches else "SSkip"
            cond, then = ks[0], ks[1]
            els = ks[2] if len(ks) > 2 else None
            return "(SIf %s %s %s)" % (self.bexp(cond), self.stmt(then), self.stmt(els) if els is not None else "SSkip")
        if k == "ReturnStmt":
            v = strip(kids(n)[0])
            if v.get("kind") == "CXXBoolLiteralExpr":
                return "(SReturn %s)" % ("true" if v.get("value") else "false")
            raise Untranslatable("return of a non-literal")
        if k == "BreakStmt":
            return "SBreak"
        if k == "BinaryOperator" and n.get("opcode") == "=":
            lhs, rhs = kids(n)
            m = self.member(lhs)
            if m == self.cfg["state"]:
                r = strip(rhs)
                name = r.get("referencedDecl", {}).get("name")
                if name not in self.enum:
                    raise Untranslatable("state_ = " + str(name))
                return "(SState %d%%nat)" % self.enum[name]
            if m in self.cfg["nums"]:
                return "(SNum %d%%nat %s)" % (self.cfg["nums"].index(m), self.nexp(rhs))
            raise Untranslatable("assignment to " + str(m))
        if k == "CompoundAssignOperator" and n.get("opcode") in ("+=", "-=", "*="):
            lhs, rhs = kids(n)
            m = self.member(lhs)
            if m in self.cfg["nums"]:
                i = self.cfg["nums"].index(m)
                op = {"+=": "NAdd", "-=": "NSub", "*=": "NMul"}[n["opcode"]]
                return "(SNum %d%%nat (%s (NNum %d%%nat) %s))" % (i, op, i, self.nexp(rhs))
            raise Untranslatable("compound assignment to " + str(m))
        if k == "CXXMemberCallExpr":
            callee = kids(n)[0]
            if callee.get("kind") == "MemberExpr" and callee.get("name") == "push_back":
                obj = self.member(kids(callee)[0])
                if obj in self.cfg["strs"]:
                    return "(SPush %d%%nat %s)" % (self.cfg["strs"].index(obj), self.nexp(kids(n)[1]))
            raise Untranslatable("member call statement")
        if k == "UnaryOperator" and n.get("opcode") == "++":
            return "(SEval %s)" % self.nexp(n)
        if k == "SwitchStmt":
            ks = kids(n)
            on = self.member(ks[0])
            if on != self.cfg["state"]:
                raise Untranslatable("switch on " + str(on))
            body = [c for c in ks if c.get("kind") == "CompoundStmt"][0]
            items = []
            for c in kids(body):
                self.switch_item(c, items)
            return "(SSwitch [%s])" % "; ".join(items)
        raise Untranslatable("statement " + str(k))

    def switch_item(self, c, items):
        k = c.get("kind")
        if k == "CaseStmt":
            ks = kids(c)
            lab = strip(ks[0])
            name = lab.get("referencedDecl", {}).get("name")
            if name not in self.enum:
                raise Untranslatable("case label " + str(name))
            sub = ks[-1]
            if sub.get("kind") in ("CaseStmt", "DefaultStmt"):
                items.append("(Some (Some %d%%nat), SSkip)" % self.enum[name])
                self.switch_item(sub, items)
            else:
                items.append("(Some (Some %d%%nat), %s)" % (self.enum[name], self.stmt(sub)))
        elif k == "DefaultStmt":
            sub = kids(c)[-1]
            if sub.get("kind") in ("CaseStmt", "DefaultStmt"):
                items.append("(Some None, SSkip)")
                self.switch_item(sub, items)
            else:
                items.append("(Some None, %s)" % self.stmt(sub))
        else:
            items.append("(None, %s)" % self.stmt(c))


CLASSES = [
    dict(name="rl", cls="request_line", header="via/http/request.hpp", enum="Request", state="state_", param="c",
         strs=["method_", "uri_"], nums=["ws_count_", "major_version_", "minor_version_"],
         limits=["MAX_URI_LENGTH", "MAX_METHOD_LENGTH", "MAX_WHITESPACE_CHARS"],
         inst={"lax": "via::http::request_line<8190, 8, 8, false>", "strict": "via::http::request_line<8190, 8, 8, true>"}),
    dict(name="sl", cls="response_line", header="via/http/response.hpp", enum="Response", state="state_", param="c",
         strs=["reason_phrase_"], nums=["ws_count_", "major_version_", "minor_version_", "status_", "status_read_"],
         limits=["MAX_STATUS_NUMBER", "MAX_REASON_LENGTH", "MAX_WHITESPACE_CHARS"],
         inst={"lax": "via::http::response_line<65534, 65534, 254, false>", "strict": "via::http::response_line<65534, 65534, 254, true>"}),
    dict(name="fl", cls="field_line", header="via/http/headers.hpp", enum="Header", state="state_", param="c",
         strs=["name_", "value_"], nums=["length_", "ws_count_"],
         limits=["MAX_LINE_LENGTH", "MAX_WHITESPACE_CHARS"],
         inst={"lax": "via::http::field_line<1024, 8, false>", "strict": "via::http::field_line<1024, 8, true>"}),
    dict(name="ck", cls="chunk_header", header="via/http/chunk.hpp", enum="Chunk", state="state_", param="c",
         strs=["hex_size_", "extension_"], nums=["length_", "ws_count_", "size_", "size_read_", "max_chunk_size_"],
         limits=["MAX_LINE_LENGTH", "MAX_WHITESPACE_CHARS"],
         inst={"lax": "via::http::chunk_header<1024, 8, false>", "strict": "via::http::chunk_header<1024, 8, true>"}),
]


def translate_class(cfg):
    with tempfile.TemporaryDirectory() as d:
        tu = os.path.join(d, "tu.cpp")
        with open(tu, "w") as f:
            f.write('#include "%s"\n' % cfg["header"])
            for v in cfg["inst"].values():
                f.write("template class %s;\n" % v)
        p = subprocess.run(["clang++", "-std=c++17", "-I" + os.path.join(REPO, "include"), "-fsyntax-only",
                            "-Xclang", "-ast-dump=json", "-Xclang", "-ast-dump-filter=" + cfg["cls"], tu],
                           stdout=subprocess.PIPE, stderr=subprocess.PIPE, text=True)
        if p.returncode != 0:
            raise Untranslatable("clang: " + p.stderr[-400:])
        docs = load_docs(p.stdout)
    specs = []
    enum_index = None
    for dd in docs:
        for n in walk(dd):
            if n.get("kind") == "ClassTemplateSpecializationDecl" and n.get("name") == cfg["cls"]:
                ms = [m for m in kids(n) if m.get("kind") == "CXXMethodDecl" and m.get("name") == "parse_char" and any(c.get("kind") == "CompoundStmt" for c in kids(m))]
                if not ms:
                    continue
                args = [a.get("value") for a in (n.get("inner") or []) if a.get("kind") == "TemplateArgument"]
                en = [e for e in kids(n) if e.get("kind") == "EnumDecl" and e.get("name") == cfg["enum"]]
                if en:
                    enum_index = {c["name"]: i for i, c in enumerate(x for x in kids(en[0]) if x.get("kind") == "EnumConstantDecl")}
                specs.append((args, ms[0]))
    if enum_index is None or len(specs) != len(cfg["inst"]):
        raise Untranslatable("%s: expected %d instantiations with an enumeration, found %d" % (cfg["cls"], len(cfg["inst"]), len(specs)))
    out = {}
    for args, m in specs:
        strict = args[-1] not in (0, "0", False, "false")
        body = [c for c in kids(m) if c.get("kind") == "CompoundStmt"][0]
        consts = {}
        for v in walk(body):
            if v.get("kind") == "VarDecl" and v.get("constexpr"):
                for lit in walk(v):
                    if lit.get("kind") == "IntegerLiteral":
                        consts[v["name"]] = int(lit["value"]); break
        tr = Tr(cfg, enum_index, consts)
        out["strict" if strict else "lax"] = tr.stmt(body)
    return enum_index, out


def main(dest):
    lines = ["(* Gen_Parse.v — GENERATED by translate/parse.py from the headers under include/via/http: do not edit. *)",
             "From Via Require Import M_Char M_Parse M_Imp.", "From Coq Require Import List NArith.", "Import ListNotations.", "Local Open Scope N_scope.", ""]
    for cfg in CLASSES:
        enum_index, progs = translate_class(cfg)
        names = sorted(enum_index, key=enum_index.get)
        lines.append("(* %s::parse_char — states: %s *)" % (cfg["cls"], ", ".join("%d %s" % (enum_index[x], x) for x in names)))
        lines.append("Definition %s_states : nat := %d%%nat." % (cfg["name"], len(names)))
        for variant in ("lax", "strict"):
            lines.append("Definition %s_src_%s : stmt :=\n  %s." % (cfg["name"], variant, progs[variant]))
        lines.append("")
    txt = "\n".join(lines) + "\n"
    with open(dest, "w") as f:
        f.write(txt)


if __name__ == "__main__":
    dest = sys.argv[1] if len(sys.argv) > 1 else os.path.join(os.path.dirname(os.path.dirname(os.path.abspath(__file__))), "coq", "Gen_Parse.v")
    try:
        main(dest)
    except Untranslatable as e:
        sys.stderr.write("parse.py: the source uses a construct the translator does not understand: %s\n" % e)
        sys.exit(1)
