#undef private
#undef protected
#undef class
