// h_pure.cpp — pure functions of the library run on a case file (same syntax as ocaml/driver.ml).
#include <cctype>
#include "via/http/character.hpp"
#include "via/http/headers.hpp"
#include "via/http/request.hpp"
#include "via/http/response.hpp"
#include "via/http/chunk.hpp"
#include "via/http/request_router.hpp"
#include "via/http/authentication/basic.hpp"
#include "hutil.hpp"
#include <map>
#include <algorithm>

using namespace via::http;
static std::string b2s(bool b) { return b ? "1" : "0"; }

struct B : via::http::authentication::basic
{
  typedef via::http::authentication::basic base;
  explicit B(std::string r) : base(std::move(r)) {}
  bool valid(StringMap const& h) const { return base::is_valid(h); }
  std::string value() const { return base::authenticate_value(); }
};

static std::string show_params(Parameters const& p)
{
  std::vector<std::string> l;
  for (auto const& kv : p) l.push_back(hu::hex(kv.first) + ":" + hu::hex(kv.second));
  std::sort(l.begin(), l.end());
  if (l.empty()) return "-";
  std::string out;
  for (size_t i = 0; i < l.size(); ++i) { if (i) out += ","; out += l[i]; }
  return out;
}

typedef rx_request<8190, 32, 100, 65534, 8190, 8, false> RxReq;
typedef request_router<std::string, RxReq> Router;

// route <regs> <method> <target> [<headers>] : build the table with add_method, parse a request line with
// the given method and target, call handle_request.  With a 5th argument `users` (u:p;u:p hex) and a
// realm, handlers registered with auth index 0 are protected by a basic authenticator.
static std::string do_route(std::vector<std::string> const& a)
{
  Router router;
  int called = -1, ncalled = 0;
  Parameters got;
  authentication::basic auth(a.size() > 5 ? hu::unhex(a[5]) : std::string());
  if (a.size() > 4)
    for (auto const& up : hu::split(a[4], ';'))
    {
      auto p = hu::split(up, ':');
      auth.add_user(hu::unhex(p[0]), p.size() > 1 ? hu::unhex(p[1]) : std::string());
    }
  for (auto const& r : hu::split(a[0], ','))
  {
    auto p = hu::split(r, '|');
    int hid = std::stoi(p[2]);
    router.add_method(hu::unhex(p[0]), hu::unhex(p[1]),
      [hid, &called, &ncalled, &got](RxReq const&, Parameters const& params, std::string const&, std::string&)
      { called = hid; ++ncalled; got = params; return tx_response(response_status::code::OK); },
      p[3] == "-" ? nullptr : &auth);
  }
  std::string text = hu::unhex(a[1]) + " " + hu::unhex(a[2]) + " HTTP/1.1\r\nHost: h\r\n"
                   + (a.size() > 3 ? hu::unhex(a[3]) : std::string()) + "\r\n";
  RxReq req;
  auto it = text.cbegin();
  if (!req.parse(it, text.cend())) return "HARNESS-ERROR request-not-parsed";
  std::string body, rbody;
  tx_response resp = router.handle_request(req, body, rbody);
  if (ncalled > 1) return "MULTI " + std::to_string(ncalled);
  if (called >= 0) return "H " + std::to_string(called) + " " + show_params(got);
  std::string msg = resp.message();
  auto value_of = [&msg](std::string const& name) {
    auto p = msg.find(name + ": ");
    if (p == std::string::npos) return std::string("?");
    auto e = msg.find("\r\n", p);
    return hu::hex(msg.substr(p + name.size() + 2, e - p - name.size() - 2));
  };
  if (resp.status() == 404) return "404";
  if (resp.status() == 405) return "405 " + value_of("Allow");
  if (resp.status() == 401) return "401 " + value_of("WWW-Authenticate");
  return "STATUS " + std::to_string(resp.status());
}

static std::string handle(std::string const& op, std::vector<std::string> const& a)
{
  if (op == "ctype")
  {
    // the library passes a (possibly negative) char
    char c = static_cast<char>(std::stoi(a[0]));
    std::ostringstream o;
    o << b2s(std::isupper(c)) << ' ' << b2s(std::isalpha(c)) << ' ' << b2s(std::isdigit(c)) << ' '
      << b2s(std::isxdigit(c)) << ' ' << b2s(std::isblank(c)) << ' ' << b2s(std::isspace(c)) << ' '
      << b2s(std::iscntrl(c)) << ' ' << b2s(std::isalnum(c)) << ' '
      << static_cast<int>(static_cast<unsigned char>(static_cast<char>(std::tolower(c)))) << ' '
      << b2s(is_separator(c)) << ' ' << b2s(is_token(c)) << ' ' << b2s(is_end_of_line(c));
    return o.str();
  }
  if (op == "fromdec") return std::to_string(from_dec_string(hu::unhex(a[0])));
  if (op == "fromhex") return std::to_string(from_hex_string(hu::unhex(a[0])));
  if (op == "todec") return hu::hex(std::to_string(static_cast<size_t>(std::stoull(a[0]))));
  if (op == "tohex") return hu::hex(to_hex_string(static_cast<size_t>(std::stoull(a[0]))));
  if (op == "split") return b2s(are_headers_split(hu::unhex(a[0])));
  if (op == "respmsg")
  {
    std::string reason(hu::unhex(a[1]));
    tx_response r(reason, std::stoi(a[0]), hu::unhex(a[2]));
    return "valid=" + b2s(r.is_valid()) + " msg=" + hu::hex(r.message(static_cast<size_t>(std::stoull(a[3]))));
  }
  if (op == "respadd")
  {
    tx_response r(static_cast<response_status::code>(std::stoi(a[0])));
    for (auto const& nv : hu::split(a[2], ','))
    {
      auto p = hu::split(nv, ':');
      r.add_header(hu::unhex(p[0]), hu::unhex(p[1]));
    }
    return "valid=" + b2s(r.is_valid()) + " msg=" + hu::hex(r.message(static_cast<size_t>(std::stoull(a[1]))));
  }
  if (op == "reqmsg")
  {
    tx_request r(hu::unhex(a[0]), hu::unhex(a[1]), hu::unhex(a[4]),
                 static_cast<char>(std::stoi(a[2])), static_cast<char>(std::stoi(a[3])));
    return hu::hex(r.message(static_cast<size_t>(std::stoull(a[5]))));
  }
  if (op == "reqops" || op == "respops")
  {
    // builder operations: C:<hex> (constructor header string, first) S:<hex> I:<id>:<hex> F:<hex>:<hex> L:<n> V H Q (is_valid() asked in between)
    bool is_req = op == "reqops";
    auto ops = hu::split(a[is_req ? 4 : 2], ';');
    std::string h0;
    if (!ops.empty() && ops[0].rfind("C:", 0) == 0) { h0 = hu::unhex(ops[0].substr(2)); ops.erase(ops.begin()); }
    tx_request rq(is_req ? hu::unhex(a[0]) : std::string("GET"), is_req ? hu::unhex(a[1]) : std::string("/"), h0,
                  is_req ? static_cast<char>(std::stoi(a[2])) : '1', is_req ? static_cast<char>(std::stoi(a[3])) : '1');
    std::string reason(is_req ? std::string() : hu::unhex(a[1]));
    tx_response rs(reason, is_req ? 200 : std::stoi(a[0]), h0);
    for (auto const& o : ops)
    {
      auto p = hu::split(o, ':');
      if (p[0] == "S") { if (is_req) rq.set_header_string(hu::unhex(p[1])); else rs.set_header_string(hu::unhex(p[1])); }
      else if (p[0] == "I")
      {
        auto id = static_cast<header_field::id>(std::stoi(p[1]));
        if (is_req) rq.add_header(id, hu::unhex(p[2])); else rs.add_header(id, hu::unhex(p[2]));
      }
      else if (p[0] == "F") { if (is_req) rq.add_header(hu::unhex(p[1]), hu::unhex(p[2])); else rs.add_header(hu::unhex(p[1]), hu::unhex(p[2])); }
      else if (p[0] == "L") { size_t n = static_cast<size_t>(std::stoull(p[1])); if (is_req) rq.add_content_length_header(n); else rs.add_content_length_header(n); }
      else if (p[0] == "V") { if (!is_req) rs.add_server_header(); }
      else if (p[0] == "H") { if (!is_req) rs.add_content_http_header(); }
      else if (p[0] == "Q") { if (!is_req) (void)rs.is_valid(); }    // ask in between (result unused)
    }
    size_t n = static_cast<size_t>(std::stoull(a[is_req ? 5 : 3]));
    if (is_req) return hu::hex(rq.message(n));
    return "valid=" + b2s(rs.is_valid()) + " msg=" + hu::hex(rs.message(n));
  }
  if (op == "chunkhdr")
  {
    chunk_header<1024, 8, false> h(static_cast<size_t>(std::stoull(a[0])), hu::unhex(a[1]));
    return hu::hex(h.to_string());
  }
  if (op == "lastchunk")
  {
    last_chunk l(hu::unhex(a[0]), hu::unhex(a[1]));
    return hu::hex(l.to_string());
  }
  if (op == "hdrid")
  {
    auto id = static_cast<header_field::id>(std::stoi(a[0]));
    return hu::hex(header_field::to_header(id, hu::unhex(a[1]))) + " " + hu::hex(header_field::lowercase_name(id));
  }
  if (op == "splitstr")
  {
    auto v = split(hu::unhex(a[0]), static_cast<char>(std::stoi(a[1])));
    std::string out;
    for (size_t i = 0; i < v.size(); ++i) { if (i) out += ","; out += hu::hex(v[i]); }
    return out;
  }
  if (op == "uripath") { request_uri u(hu::unhex(a[0])); return hu::hex(u.path()); }
  if (op == "routeparams") return show_params(get_route_parameters(hu::unhex(a[0]), hu::unhex(a[1])));
  if (op == "route") return do_route(a);
  if (op == "routeauth")
  {
    // do_route(regs, method, target, header lines, users, realm)
    std::vector<std::string> b{a[0], a[1], a[2], a[3] == "NONE" ? std::string("-") : hu::hex("Authorization: " + hu::unhex(a[3]) + "\r\n"), a[4], a[5]};
    return do_route(b);
  }
  if (op == "b64enc") return hu::hex(authentication::base64::encode(hu::unhex(a[0])));
  if (op == "b64dec") return hu::hex(authentication::base64::decode(hu::unhex(a[0])));
  if (op == "b64rt") return hu::hex(authentication::base64::decode(authentication::base64::encode(hu::unhex(a[0]))));
  if (op == "basic")
  {
    B auth(hu::unhex(a[1]));
    for (auto const& up : hu::split(a[0], ';'))
    {
      auto p = hu::split(up, ':');
      auth.add_user(hu::unhex(p[0]), p.size() > 1 ? hu::unhex(p[1]) : std::string());
    }
    StringMap hdrs;
    if (a[2] != "NONE") hdrs["authorization"] = hu::unhex(a[2]);
    bool ok = auth.valid(hdrs);
    return ok ? std::string("valid=1 challenge=-") : "valid=0 challenge=" + hu::hex(auth.value());
  }
  return "HARNESS-ERROR unknown-op " + op;
}

int main(int argc, char** argv) { return hu::run_cases(argc, argv, handle); }
