// h_pure.cpp — pure functions of the library run on a case file (same syntax as ocaml/driver.ml).
#include <cctype>
#include "via/http/character.hpp"
#include "via/http/headers.hpp"
#include "via/http/request.hpp"
#include "via/http/response.hpp"
#include "via/http/chunk.hpp"
#include "hutil.hpp"

using namespace via::http;
static std::string b2s(bool b) { return b ? "1" : "0"; }

static std::string handle(std::string const& op, std::vector<std::string> const& a)
{
  if (op == "ctype")
  {
    // the library passes a (possibly negative) char
    char c = static_cast<char>(std::stoi(a[0]));
    std::ostringstream o;
    o << b2s(std::isupper(c)) << ' ' << b2s(std::isalpha(c)) << ' ' << b2s(std::isdigit(c)) << ' '
      << b2s(std::isxdigit(c)) << ' ' << b2s(std::isblank(c)) << ' ' << b2s(std::isspace(c)) << ' '
      << b2s(std::iscntrl(c)) << ' ' << b2s(std::isalnum(c)) << ' '
      << static_cast<int>(static_cast<unsigned char>(static_cast<char>(std::tolower(c)))) << ' '
      << b2s(is_separator(c)) << ' ' << b2s(is_token(c)) << ' ' << b2s(is_end_of_line(c));
    return o.str();
  }
  if (op == "fromdec") return std::to_string(from_dec_string(hu::unhex(a[0])));
  if (op == "fromhex") return std::to_string(from_hex_string(hu::unhex(a[0])));
  if (op == "todec") return hu::hex(std::to_string(static_cast<size_t>(std::stoull(a[0]))));
  if (op == "tohex") return hu::hex(to_hex_string(static_cast<size_t>(std::stoull(a[0]))));
  if (op == "split") return b2s(are_headers_split(hu::unhex(a[0])));
  if (op == "respmsg")
  {
    std::string reason(hu::unhex(a[1]));
    tx_response r(reason, std::stoi(a[0]), hu::unhex(a[2]));
    return "valid=" + b2s(r.is_valid()) + " msg=" + hu::hex(r.message(static_cast<size_t>(std::stoull(a[3]))));
  }
  if (op == "respadd")
  {
    tx_response r(static_cast<response_status::code>(std::stoi(a[0])));
    for (auto const& nv : hu::split(a[2], ','))
    {
      auto p = hu::split(nv, ':');
      r.add_header(hu::unhex(p[0]), hu::unhex(p[1]));
    }
    return "valid=" + b2s(r.is_valid()) + " msg=" + hu::hex(r.message(static_cast<size_t>(std::stoull(a[1]))));
  }
  if (op == "reqmsg")
  {
    tx_request r(hu::unhex(a[0]), hu::unhex(a[1]), hu::unhex(a[4]),
                 static_cast<char>(std::stoi(a[2])), static_cast<char>(std::stoi(a[3])));
    return hu::hex(r.message(static_cast<size_t>(std::stoull(a[5]))));
  }
  if (op == "chunkhdr")
  {
    chunk_header<1024, 8, false> h(static_cast<size_t>(std::stoull(a[0])), hu::unhex(a[1]));
    return hu::hex(h.to_string());
  }
  if (op == "lastchunk")
  {
    last_chunk l(hu::unhex(a[0]), hu::unhex(a[1]));
    return hu::hex(l.to_string());
  }
  if (op == "hdrid")
  {
    auto id = static_cast<header_field::id>(std::stoi(a[0]));
    return hu::hex(header_field::to_header(id, hu::unhex(a[1]))) + " " + hu::hex(header_field::lowercase_name(id));
  }
  return "HARNESS-ERROR unknown-op " + op;
}

int main(int argc, char** argv) { return hu::run_cases(argc, argv, handle); }
