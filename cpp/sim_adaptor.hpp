// sim_adaptor.hpp — a socket adaptor for deterministic simulation of comms::connection /
// comms::server / http_server.  The library is a template over its SocketAdaptor; this one records
// every operation the library asks of the socket and keeps the completion handlers so that the
// harness can play an event history: complete the pending read with these bytes / this error,
// complete the pending write, complete the handshake / TLS shutdown, deliver aborted completions
// after a close.  Nothing here runs an io_context.
#pragma once
#include <boost/asio.hpp>
#include <string>
#include <vector>
#include <map>
#include <deque>
#include <functional>
#include <unistd.h>
#include <sys/socket.h>
#include <sys/time.h>
#include "via/comms/socket_adaptor.hpp"

namespace sim
{
  struct world;
  inline world*& the_world() { static world* w = nullptr; return w; }

  struct fake_address { std::string to_string() const { return "sim"; } };
  struct fake_endpoint { fake_address address() const { return fake_address(); } };

  struct fake_socket
  {
    bool throws{false};
    fake_endpoint remote_endpoint() const
    {
      if (throws) throw boost::system::system_error(boost::asio::error::not_connected);
      return fake_endpoint();
    }
    fake_endpoint remote_endpoint(boost::system::error_code& ec) const
    {
      ec = throws ? boost::system::error_code(boost::asio::error::not_connected) : boost::system::error_code();
      return fake_endpoint();
    }
    template <typename O> void set_option(O const&) {}
    template <typename O> void get_option(O&) const {}
    // a real (unconnected) descriptor when the harness wants to read back the socket options the library sets
    int fd{-1};
    int native_handle() { return fd; }
    bool is_open() const { return true; }
    fake_socket() = default;
    fake_socket(fake_socket const&) = delete;
    ~fake_socket() { if (fd >= 0) ::close(fd); }
  };

  // stands for asio's ssl error category: value 1 = "protocol is shutdown" (SSL_R_PROTOCOL_IS_SHUTDOWN),
  // any other value = another TLS level error (e.g. a close_notify / short read reported by the peer)
  class sim_ssl_category_t : public boost::system::error_category
  {
  public:
    const char* name() const noexcept override { return "sim.ssl"; }
    std::string message(int v) const override { return "sim ssl error " + std::to_string(v); }
  };
  inline boost::system::error_category const& sim_ssl_category() { static sim_ssl_category_t c; return c; }

  // a completion of an operation cancelled by close(): normally delivered with operation_aborted (run()), but an
  // operation that had already completed when close() was called keeps its own result (late(ec))
  struct aborted_completion { int id; char kind; std::function<void()> run; std::function<void(boost::system::error_code)> late; };

  struct world
  {
    int next_id{0};
    bool next_endpoint_throws{false};
    bool real_descriptors{false};              // give every socket a real descriptor (socket options can be read back)
    bool next_is_client{false};                // the next adaptor is a client's: its socket starts unopened
    bool resolve_fails{false};                 // the next connect() finds no endpoint
    std::map<int, void*> live;                 // id -> adaptor (type erased)
    std::vector<std::string> log;
    std::deque<aborted_completion> aborted;    // completions of operations cancelled by close()
    std::map<int, std::string> available;      // bytes that have already arrived for a connection when its next read is started:
                                               // asio (and OpenSSL's buffer) hand them over at once, into the buffer given to read()
    void say(int id, std::string const& what) { log.push_back("c" + std::to_string(id) + ":" + what); }
  };

  inline std::string bytes_of(via::comms::ConstBuffers const& bufs)
  {
    std::string out;
    for (auto const& b : bufs)
      out.append(static_cast<const char*>(b.data()), b.size());
    return out;
  }

  inline std::string hexs(std::string const& s)
  {
    if (s.empty()) return "-";
    static const char* d = "0123456789abcdef";
    std::string o;
    for (unsigned char c : s) { o.push_back(d[c >> 4]); o.push_back(d[c & 15]); }
    return o;
  }

  // TLS = false: the shape of tcp_adaptor (synchronous handshake, synchronous shutdown reported as eof)
  // TLS = true : the shape of ssl_tcp_adaptor (asynchronous handshake; shutdown = cancel + async_shutdown)
  template <bool TLS>
  class adaptor
  {
  public:
    int id_;
    fake_socket socket_;
    bool open_{true};
    // pending operations
    bool read_pending_{false};
    boost::asio::mutable_buffer read_buf_;
    via::comms::CommsHandler read_handler_;
    bool write_pending_{false};
    via::comms::ConstBuffers const* write_bufs_{nullptr};
    std::string write_snapshot_;
    via::comms::CommsHandler write_handler_;
    bool handshake_pending_{false};
    via::comms::ErrorHandler handshake_handler_;
    bool shutdown_pending_{false};
    via::comms::CommsHandler shutdown_handler_;
    bool connect_pending_{false};
    via::comms::ConnectHandler connect_handler_;

  protected:
    explicit adaptor(boost::asio::ip::tcp::socket) : id_(++the_world()->next_id)
    {
      socket_.throws = the_world()->next_endpoint_throws;
      if (the_world()->real_descriptors) socket_.fd = ::socket(AF_INET, SOCK_STREAM, 0);
      the_world()->next_endpoint_throws = false;
      open_ = !the_world()->next_is_client;
      the_world()->next_is_client = false;
      the_world()->live[id_] = this;
    }

    void handshake(via::comms::ErrorHandler handshake_handler, bool = false)
    {
      if (TLS)
      {
        handshake_pending_ = true;
        handshake_handler_ = handshake_handler;
        the_world()->say(id_, "handshake");
      }
      else
      {
        boost::system::error_code ec;
        handshake_handler(ec);
      }
    }

  public:
    typedef boost::asio::ip::tcp::socket socket_type;
    static const unsigned short DEFAULT_HTTP_PORT = 80;
    static const size_t DEFAULT_RX_BUFFER_SIZE = 8192;

    virtual ~adaptor() { the_world()->live.erase(id_); }

    void read(boost::asio::mutable_buffer const& buffer, via::comms::CommsHandler h)
    {
      if (read_pending_) the_world()->say(id_, "SECOND-READ");
      read_pending_ = true; read_buf_ = buffer; read_handler_ = h;
      the_world()->say(id_, "read");
      auto av = the_world()->available.find(id_);
      if (av != the_world()->available.end())
      {
        // the operation is tried when it is started (speculatively): the buffer is written now, the completion comes later
        std::memcpy(read_buf_.data(), av->second.data(), std::min(av->second.size(), read_buf_.size()));
        the_world()->available.erase(av);
      }
    }

    void write(via::comms::ConstBuffers const& buffers, via::comms::CommsHandler h)
    {
      if (write_pending_) the_world()->say(id_, "SECOND-WRITE");
      write_pending_ = true; write_bufs_ = &buffers; write_handler_ = h;
      write_snapshot_ = bytes_of(buffers);
      the_world()->say(id_, "write=" + hexs(write_snapshot_));
    }

    void shutdown(via::comms::CommsHandler h)
    {
      if (TLS)
      {
        // socket_.lowest_layer().cancel(); socket_.async_shutdown(...)
        the_world()->say(id_, "cancel");
        cancel_pending('k');
        shutdown_pending_ = true; shutdown_handler_ = h;
        the_world()->say(id_, "tls-shutdown");
      }
      else
      {
        the_world()->say(id_, "shutdown");
        // a write still pending at this point is cut short: the peer sees what the kernel had taken
        if (write_pending_) the_world()->say(id_, "TRUNCATED-WRITE");
        boost::system::error_code ec(boost::asio::error::eof);
        h(ec, 0);
      }
    }

    // pending operations complete later with operation_aborted
    void cancel_pending(char why)
    {
      world* w = the_world();
      if (read_pending_)
      { auto h = read_handler_; read_pending_ = false;
        w->aborted.push_back({id_, 'r', [h]() { h(boost::asio::error::operation_aborted, 0); }, [h](boost::system::error_code ec) { h(ec, 0); }}); }
      if (write_pending_)
      { auto h = write_handler_; write_pending_ = false;
        w->aborted.push_back({id_, 'w', [h]() { h(boost::asio::error::operation_aborted, 0); }, [h](boost::system::error_code ec) { h(ec, 0); }}); }
      if (why == 'c')
      {
        if (connect_pending_)
        { auto h = connect_handler_; connect_pending_ = false;
          w->aborted.push_back({id_, 'n', [h]() { h(boost::asio::error::operation_aborted, boost::asio::ip::tcp::endpoint()); },
                                [h](boost::system::error_code ec) { h(ec, boost::asio::ip::tcp::endpoint()); }}); }
        if (handshake_pending_)
        { auto h = handshake_handler_; handshake_pending_ = false;
          w->aborted.push_back({id_, 'h', [h]() { h(boost::asio::error::operation_aborted); }, [h](boost::system::error_code ec) { h(ec); }}); }
        if (shutdown_pending_)
        { auto h = shutdown_handler_; shutdown_pending_ = false;
          w->aborted.push_back({id_, 's', [h]() { h(boost::asio::error::operation_aborted, 0); }, [h](boost::system::error_code ec) { h(ec, 0); }}); }
      }
    }

    // tcp_adaptor::close / ssl_tcp_adaptor::close: if (socket.is_open()) socket.close()
    void close()
    {
      if (!open_) return;
      open_ = false;
      the_world()->say(id_, "close");
      cancel_pending('c');
    }

    // tcp_adaptor::connect: resolve, then asio::async_connect over the endpoints, which closes the socket if
    // it is open and opens it again for the attempt
    bool connect(boost::asio::io_context&, const char* host_name, const char* port_name,
                 via::comms::ConnectHandler h)
    {
      if (the_world()->resolve_fails) { the_world()->resolve_fails = false; the_world()->say(id_, "resolve-failed"); return false; }
      if (open_) { the_world()->say(id_, "reopen"); cancel_pending('c'); }
      open_ = true;
      connect_pending_ = true; connect_handler_ = h;
      the_world()->say(id_, std::string("connect=") + host_name + ":" + port_name);
      return true;
    }

    void start(via::comms::ErrorHandler handshake_handler)
    {
      the_world()->say(id_, "start");
      handshake(handshake_handler, true);
    }

    // ssl_tcp_adaptor::is_disconnect / is_shutdown
    bool is_disconnect(boost::system::error_code const& error) noexcept
    {
      if (!TLS) return false;
      return sim_ssl_category() == error.category();
    }
    bool is_shutdown(boost::system::error_code const& error) noexcept
    {
      if (!TLS) return false;
      return 1 != error.value();     // SSL_R_PROTOCOL_IS_SHUTDOWN != ERR_GET_REASON(error.value())
    }

    fake_socket& socket() noexcept { return socket_; }
  };
}
