// h_pool.cpp — the real server in thread-pool mode (HTTP_THREAD_SAFE, tcp_adaptor, real loopback sockets,
// one io_context run by several threads), under ThreadSanitizer.  Supporting run for C12: it validates
// the assumption the model makes about thread-pool mode (handlers of one connection never overlap;
// state shared between connections is only touched through the concurrent maps) and is where a failing
// schedule is looked for when a proof obligation breaks.
//
// case: pool <threads> <clients> <requests-per-connection> <rounds> <shutdown:0|1|2> <seed>
//   shutdown 0: clients finish, then shutdown(); 1: shutdown() posted to the pool while clients are
//   still exchanging requests; 2: no shutdown(), the server object is closed after the pool stopped
// output: port=.. conns=<connected events> disc=<disconnected events> reqs=<requests handled>
//         resp=<complete responses read by clients> lost=<requests without a response after 3 s>
//         busy=<send() called while the previous write's completion had not run> refused=<send() returned false>
//         overlap=<handler re-entrancy on one connection> maxpar=<max handlers running at once>
#define HTTP_THREAD_SAFE
#define VERIF_WITH_ASIO
#include "open_access.hpp"
#include "via/comms/tcp_adaptor.hpp"
#include "via/http_server.hpp"
#include "close_access.hpp"
#include "hutil.hpp"
#include <thread>
#include <atomic>
#include <chrono>

typedef via::http_server<via::comms::tcp_adaptor, std::string, true> http_server_type;
typedef http_server_type::http_connection_type http_connection;
typedef http_server_type::http_request http_request;

namespace
{
  // per-connection re-entrancy detection without creating happens-before edges (relaxed atomics)
  struct Slot { std::atomic<void*> key{nullptr}; std::atomic<int> busy{0}; std::atomic<int> kinds{0}; };
  std::atomic<int> overlap_kinds{0};
  Slot slots[8192];
  std::atomic<long> busy_at_send{0}, refused{0}, overlap{0}, handled{0}, conns{0}, discs{0}, running{0}, maxpar{0};

  Slot& slot_of(void* p)
  {
    size_t h = (reinterpret_cast<uintptr_t>(p) >> 4) % 8192;
    for (;;)
    {
      void* k = slots[h].key.load(std::memory_order_relaxed);
      if (k == p) return slots[h];
      if (k == nullptr)
      {
        void* expected = nullptr;
        if (slots[h].key.compare_exchange_strong(expected, p, std::memory_order_relaxed) || expected == p)
          return slots[h];
      }
      h = (h + 1) % 8192;
    }
  }
  struct Enter
  {
    Slot& s;
    int kind;
    Enter(void* p, int k) : s(slot_of(p)), kind(k)
    {
      int others = s.kinds.fetch_or(k, std::memory_order_relaxed);
      if (s.busy.fetch_add(1, std::memory_order_relaxed) != 0)
      { overlap.fetch_add(1, std::memory_order_relaxed); overlap_kinds.fetch_or(others | k, std::memory_order_relaxed); }
      long r = running.fetch_add(1, std::memory_order_relaxed) + 1;
      long m = maxpar.load(std::memory_order_relaxed);
      while (r > m && !maxpar.compare_exchange_weak(m, r, std::memory_order_relaxed)) {}
    }
    ~Enter() { running.fetch_sub(1, std::memory_order_relaxed); s.kinds.fetch_and(~kind, std::memory_order_relaxed); s.busy.fetch_sub(1, std::memory_order_relaxed); }
  };

  const std::string body_text(200, 'x');

  void request_handler(http_connection::weak_pointer weak_ptr, http_request const& request, std::string const&)
  {
    http_connection::shared_pointer c(weak_ptr.lock());
    if (!c) return;
    Enter e(c.get(), 1);
    handled.fetch_add(1, std::memory_order_relaxed);
    // a little work inside the handler widens the window for an overlap
    volatile unsigned x = 0;
    for (unsigned i = 0; i < 2000; ++i) x += i;
    via::http::tx_response response(via::http::response_status::code::OK);
    response.add_server_header();
    { auto tcp = c->connection_.lock(); if (tcp && tcp->transmitting_) busy_at_send.fetch_add(1, std::memory_order_relaxed); }
    bool sent = (request.uri() == "/big") ? c->send(std::move(response), std::string(20000, 'y'))
                                          : c->send(std::move(response), body_text);
    if (!sent) refused.fetch_add(1, std::memory_order_relaxed);
  }
  void connected_handler(http_connection::weak_pointer w)
  { http_connection::shared_pointer c(w.lock()); if (c) { Enter e(c.get(), 2); conns.fetch_add(1, std::memory_order_relaxed); } }
  void disconnected_handler(http_connection::weak_pointer w)
  { http_connection::shared_pointer c(w.lock()); if (c) { Enter e(c.get(), 4); discs.fetch_add(1, std::memory_order_relaxed); } }
  void sent_handler(http_connection::weak_pointer w)
  { http_connection::shared_pointer c(w.lock()); if (c) { Enter e(c.get(), 8); } }

  // blocking client: returns number of complete responses; lost incremented on timeout
  void client(unsigned short port, int nreq, int rounds, unsigned seed, std::atomic<long>& resp, std::atomic<long>& lost,
              std::atomic<bool>& stop)
  {
    using boost::asio::ip::tcp;
    unsigned s = seed;
    auto rnd = [&s]() { s = s * 1664525u + 1013904223u; return (s >> 8) & 0xffffff; };
    for (int r = 0; r < rounds && !stop.load(); ++r)
    {
      boost::asio::io_context ioc;
      tcp::socket sock(ioc);
      boost::system::error_code ec;
      sock.connect(tcp::endpoint(boost::asio::ip::make_address("127.0.0.1"), port), ec);
      if (ec) return;
      struct timeval tv; tv.tv_sec = 3; tv.tv_usec = 0;
      setsockopt(sock.native_handle(), SOL_SOCKET, SO_RCVTIMEO, &tv, sizeof tv);
      std::string pending;
      for (int i = 0; i < nreq; ++i)
      {
        std::string req = (rnd() % 5 == 0) ? "GET /big HTTP/1.1\r\nHost: a\r\n\r\n" : "GET /hello HTTP/1.1\r\nHost: a\r\n\r\n";
        boost::asio::write(sock, boost::asio::buffer(req), ec);
        if (ec) break;
        // read one response: headers, then Content-Length bytes
        size_t need = std::string::npos;
        bool got = false;
        for (;;)
        {
          size_t he = pending.find("\r\n\r\n");
          if (he != std::string::npos)
          {
            size_t cl = pending.find("Content-Length: ");
            size_t len = (cl != std::string::npos && cl < he) ? std::stoul(pending.substr(cl + 16)) : 0;
            need = he + 4 + len;
            if (pending.size() >= need) { pending.erase(0, need); got = true; break; }
          }
          char buf[8192];
          ssize_t n = ::recv(sock.native_handle(), buf, sizeof buf, 0);
          if (n <= 0) break;
          pending.append(buf, static_cast<size_t>(n));
        }
        if (got) resp.fetch_add(1);
        else { if (!stop.load()) lost.fetch_add(1); break; }
      }
      sock.close(ec);
    }
  }
}

static std::string handle(std::string const& op, std::vector<std::string> const& a)
{
  if (op != "pool") return "HARNESS-ERROR unknown-op " + op;
  int nthreads = std::stoi(a[0]), nclients = std::stoi(a[1]), nreq = std::stoi(a[2]), rounds = std::stoi(a[3]);
  int shut = std::stoi(a[4]); unsigned seed = static_cast<unsigned>(std::stoul(a[5]));
  busy_at_send = 0; refused = 0; overlap = 0; overlap_kinds = 0; handled = 0; conns = 0; discs = 0; running = 0; maxpar = 0;
  for (auto& s : slots) { s.key.store(nullptr); s.busy.store(0); s.kinds.store(0); }

  boost::asio::io_context io_context(nthreads);
  auto server = std::make_unique<http_server_type>(io_context);
  server->request_received_event(request_handler);
  server->socket_connected_event(connected_handler);
  server->socket_disconnected_event(disconnected_handler);
  server->message_sent_event(sent_handler);
  unsigned short port = 0;
  port = hu::free_port(seed * 7u + static_cast<unsigned>(getpid()));
  if (!port) return "HARNESS-ERROR no-port";
  try { boost::system::error_code ec(server->accept_connections(port)); if (ec) return "HARNESS-ERROR listen: " + ec.message(); }
  catch (std::exception const& e) { return std::string("HARNESS-ERROR listen: ") + e.what(); }
  std::vector<std::thread> pool;
  for (int i = 0; i < nthreads; ++i) pool.emplace_back([&io_context]() { io_context.run(); });

  std::atomic<long> resp{0}, lost{0};
  std::atomic<bool> stop{false};
  std::vector<std::thread> clients;
  for (int c = 0; c < nclients; ++c)
    clients.emplace_back([&, c]() { client(port, nreq, rounds, seed * 31u + static_cast<unsigned>(c), resp, lost, stop); });
  if (shut == 1)
  {
    std::this_thread::sleep_for(std::chrono::milliseconds(30 + seed % 40));
    stop = true;
    boost::asio::post(io_context, [&server]() { server->shutdown(); });
  }
  for (auto& t : clients) t.join();
  if (shut == 0)
    boost::asio::post(io_context, [&server]() { server->shutdown(); });
  // give the pool a moment to finish the shutdown, then stop it
  for (int i = 0; i < 200 && !io_context.stopped(); ++i) std::this_thread::sleep_for(std::chrono::milliseconds(10));
  io_context.stop();
  for (auto& t : pool) t.join();
  server.reset();
  return "conns=" + std::to_string(conns.load()) + " disc=" + std::to_string(discs.load()) + " reqs=" + std::to_string(handled.load()) +
         " resp=" + std::to_string(resp.load()) + " lost=" + std::to_string(lost.load()) + " busy=" + std::to_string(busy_at_send.load()) + " refused=" + std::to_string(refused.load()) + " overlap=" + std::to_string(overlap.load()) +
         " maxpar=" + std::to_string(maxpar.load()) + " okinds=" + std::to_string(overlap_kinds.load());
}

int main(int argc, char** argv) { return hu::run_cases(argc, argv, handle); }
