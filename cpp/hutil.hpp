// hutil.hpp — helpers shared by the correspondence harnesses: case-file parsing, hex coding.
#pragma once
#include <string>
#include <sys/socket.h>
#include <netinet/in.h>
#include <unistd.h>
#include <vector>
#include <sstream>
#include <iostream>
#include <fstream>
#include <cstdio>

namespace hu {
// a TCP port nobody is listening on right now (both address families), found by trying to bind it; the library's
// accept_connections() uses the throwing bind(), so the harnesses look for a free port first
inline unsigned short free_port(unsigned start)
{
  for (unsigned p = 20000u + start % 30000u, tries = 0; tries < 20000; ++tries, p = (p >= 60000u ? 20000u : p + 1u))
  {
    bool ok = true;
    for (int fam : { AF_INET6, AF_INET })
    {
      int fd = ::socket(fam, SOCK_STREAM, 0);
      if (fd < 0) continue;
      int one = 1; ::setsockopt(fd, SOL_SOCKET, SO_REUSEADDR, &one, sizeof one);
      int rc;
      if (fam == AF_INET6)
      { sockaddr_in6 a{}; a.sin6_family = AF_INET6; a.sin6_port = htons(static_cast<unsigned short>(p)); a.sin6_addr = in6addr_any; rc = ::bind(fd, reinterpret_cast<sockaddr*>(&a), sizeof a); }
      else
      { sockaddr_in a{}; a.sin_family = AF_INET; a.sin_port = htons(static_cast<unsigned short>(p)); a.sin_addr.s_addr = htonl(INADDR_ANY); rc = ::bind(fd, reinterpret_cast<sockaddr*>(&a), sizeof a); }
      if (rc == 0) rc = ::listen(fd, 1);
      ::close(fd);
      if (rc != 0) { ok = false; break; }
    }
    if (ok) return static_cast<unsigned short>(p);
  }
  return 0;
}

inline int hexval(char c)
{ return (c >= '0' && c <= '9') ? c - '0' : (c >= 'a' && c <= 'f') ? c - 'a' + 10 : c - 'A' + 10; }

inline std::string unhex(std::string const& s)
{
  if (s == "-") return std::string();
  std::string out;
  for (size_t i = 0; i + 1 < s.size(); i += 2)
    out.push_back(static_cast<char>(hexval(s[i]) * 16 + hexval(s[i + 1])));
  return out;
}

template <typename C>
inline std::string hex(C const& s)
{
  if (s.begin() == s.end()) return "-";
  static const char* d = "0123456789abcdef";
  std::string out;
  for (auto ch : s) { unsigned char c = static_cast<unsigned char>(ch); out.push_back(d[c >> 4]); out.push_back(d[c & 15]); }
  return out;
}

inline std::vector<std::string> split(std::string const& s, char sep)
{
  std::vector<std::string> out;
  if (s.empty() || s == "-") return out;
  std::string cur;
  for (char c : s) { if (c == sep) { out.push_back(cur); cur.clear(); } else cur.push_back(c); }
  out.push_back(cur);
  return out;
}

inline std::vector<std::string> tokens(std::string const& line)
{
  std::vector<std::string> out; std::string cur;
  for (char c : line) { if (c == ' ') { out.push_back(cur); cur.clear(); } else cur.push_back(c); }
  out.push_back(cur);
  return out;
}

template <typename F>
int run_cases(int argc, char** argv, F handle)
{
  std::istream* in = &std::cin; std::ifstream f;
  if (argc > 1) { f.open(argv[1]); in = &f; }
  std::string line;
  while (std::getline(*in, line))
  {
    if (line.empty()) continue;
    auto t = tokens(line);
    std::string op = t[0]; t.erase(t.begin());
    std::string res;
    try { res = handle(op, t); }
    catch (std::exception const& e) { res = std::string("THROW ") + e.what(); }
    std::cout << res << "\n";
  }
  std::cout.flush();
  return 0;
}
}
