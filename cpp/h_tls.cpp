// h_tls.cpp — the real server over the real ssl_tcp_adaptor and OpenSSL on loopback sockets, one event-loop thread,
// a self-signed certificate made in memory; the peer is a blocking client written directly on OpenSSL so that it sees
// exactly how a connection ends (close_notify, a bare end of stream, a timeout).  Supporting runs for C19: the
// simulation transcribes the TLS adaptor's shape by hand; these runs execute it.
//
// case: tls close  <body-bytes> <version 0|1>      one request that ends the connection (HTTP/1.0, or Connection: close)
//       tls keep   <body-bytes> <requests>          sequential keep-alive requests, then the client closes properly
//       tls linger <body-bytes>                     client A gets its response (Connection: close) and then stays silent,
//                                                   not answering the close_notify; client B must be served meanwhile
//       tls abort  <body-bytes>                     client A resets the connection in the middle of a large response;
//                                                   client B must be served afterwards
// output: a=<body bytes received>/<expected>:<how A's stream ended> b=<ok|none|-> bms=<ms until B was served> conns= disc= alive=<0|1>
#define HTTP_SSL
#include "via/comms/ssl/ssl_tcp_adaptor.hpp"
#include "via/http_server.hpp"
#include "hutil.hpp"
#include <functional>
#include <openssl/ssl.h>
#include <openssl/err.h>
#include <openssl/x509.h>
#include <openssl/pem.h>
#include <openssl/evp.h>
#include <netinet/tcp.h>
#include <thread>
#include <atomic>
#include <chrono>
#include <future>

typedef via::http_server<via::comms::ssl::ssl_tcp_adaptor, std::string, true> https_server_type;
typedef https_server_type::http_connection_type https_connection;
typedef https_server_type::http_request http_request;

static void make_certificate(std::string& cert_pem, std::string& key_pem)
{
  EVP_PKEY* key = EVP_EC_gen("P-256");
  X509* cert = X509_new();
  ASN1_INTEGER_set(X509_get_serialNumber(cert), 7);
  X509_gmtime_adj(X509_getm_notBefore(cert), -600);
  X509_gmtime_adj(X509_getm_notAfter(cert), 86400);
  X509_set_pubkey(cert, key);
  X509_NAME* name = X509_get_subject_name(cert);
  X509_NAME_add_entry_by_txt(name, "CN", MBSTRING_ASC, reinterpret_cast<const unsigned char*>("localhost"), -1, -1, 0);
  X509_set_issuer_name(cert, name);
  X509_sign(cert, key, EVP_sha256());
  auto pem = [](std::function<void(BIO*)> write)
  {
    BIO* b = BIO_new(BIO_s_mem()); write(b);
    char* p = nullptr; long n = BIO_get_mem_data(b, &p);
    std::string s(p, static_cast<size_t>(n)); BIO_free(b); return s;
  };
  cert_pem = pem([cert](BIO* b) { PEM_write_bio_X509(b, cert); });
  key_pem = pem([key](BIO* b) { PEM_write_bio_PrivateKey(b, key, nullptr, nullptr, 0, nullptr, nullptr); });
  X509_free(cert); EVP_PKEY_free(key);
}

struct tls_client
{
  int fd{-1}; SSL_CTX* ctx{nullptr}; SSL* ssl{nullptr};
  ~tls_client() { if (ssl) SSL_free(ssl); if (ctx) SSL_CTX_free(ctx); if (fd >= 0) ::close(fd); }
  void timeout(int ms) { timeval tv{ms / 1000, (ms % 1000) * 1000}; setsockopt(fd, SOL_SOCKET, SO_RCVTIMEO, &tv, sizeof tv); setsockopt(fd, SOL_SOCKET, SO_SNDTIMEO, &tv, sizeof tv); }
  bool connect(unsigned short port, int ms)
  {
    fd = ::socket(AF_INET, SOCK_STREAM, 0);
    sockaddr_in a{}; a.sin_family = AF_INET; a.sin_port = htons(port); a.sin_addr.s_addr = htonl(INADDR_LOOPBACK);
    if (::connect(fd, reinterpret_cast<sockaddr*>(&a), sizeof a) != 0) return false;
    timeout(ms);
    ctx = SSL_CTX_new(TLS_client_method()); ssl = SSL_new(ctx); SSL_set_fd(ssl, fd);
    return SSL_connect(ssl) == 1;
  }
  bool send(std::string const& s) { return SSL_write(ssl, s.data(), static_cast<int>(s.size())) == static_cast<int>(s.size()); }
  // read one response with a Content-Length body; returns the body bytes received, `complete` when all arrived
  size_t read_response(bool& complete, std::string& how)
  {
    std::string in; size_t need = std::string::npos, head = 0; char buf[16384]; complete = false;
    for (;;)
    {
      if (need == std::string::npos)
      {
        size_t he = in.find("\r\n\r\n");
        if (he != std::string::npos)
        { size_t cl = in.find("Content-Length: "); head = he + 4; need = head + ((cl != std::string::npos && cl < he) ? std::stoull(in.substr(cl + 16)) : 0); }
      }
      if (need != std::string::npos && in.size() >= need) { complete = true; how = "more"; return need - head; }
      int n = SSL_read(ssl, buf, sizeof buf);
      if (n > 0) { in.append(buf, static_cast<size_t>(n)); continue; }
      how = ending(n);
      return (need != std::string::npos && in.size() > head) ? in.size() - head : 0;
    }
  }
  std::string ending(int n)
  {
    int e = SSL_get_error(ssl, n);
    std::string how;
    if (e == SSL_ERROR_ZERO_RETURN) how = "close_notify";
    else if (e == SSL_ERROR_WANT_READ || e == SSL_ERROR_WANT_WRITE || (e == SSL_ERROR_SYSCALL && (errno == EAGAIN || errno == EWOULDBLOCK))) how = "timeout";
    else if (e == SSL_ERROR_SYSCALL) how = "end-of-stream";
    else if (e == SSL_ERROR_SSL) { unsigned long q = ERR_peek_error(); how = ERR_GET_REASON(q) == SSL_R_UNEXPECTED_EOF_WHILE_READING ? "end-of-stream" : "tls-error"; }
    else how = "error";
    ERR_clear_error();
    return how;
  }
  // after the last response: how does the server end the stream?
  std::string wait_end() { char buf[256]; for (;;) { int n = SSL_read(ssl, buf, sizeof buf); if (n > 0) continue; return ending(n); } }
  void reset() { linger lg{1, 0}; setsockopt(fd, SOL_SOCKET, SO_LINGER, &lg, sizeof lg); ::close(fd); fd = -1; }
};

static std::string request(bool v11, bool close, const char* path)
{ return std::string("GET ") + path + " HTTP/" + (v11 ? "1.1" : "1.0") + "\r\nHost: h\r\n" + (close ? "Connection: close\r\n" : "") + "\r\n"; }

static std::string handle(std::string const& op, std::vector<std::string> const& a)
{
  if (op != "tls") return "HARNESS-ERROR unknown-op " + op;
  std::string scenario = a[0];
  size_t body_bytes = static_cast<size_t>(std::stoull(a[1]));
  std::atomic<long> conns{0}, disc{0};
  boost::asio::io_context io;
  boost::asio::ssl::context tls(boost::asio::ssl::context::tls_server);
  std::string cert, key; make_certificate(cert, key);
  boost::system::error_code ec;
  tls.use_certificate_chain(boost::asio::buffer(cert), ec);
  if (ec) return "HARNESS-ERROR certificate: " + ec.message();
  tls.use_private_key(boost::asio::buffer(key), boost::asio::ssl::context::pem, ec);
  if (ec) return "HARNESS-ERROR key: " + ec.message();
  https_server_type server(io, tls);
  server.request_received_event([body_bytes](https_connection::weak_pointer w, http_request const& rq, std::string const&)
  {
    if (auto c = w.lock())
    {
      via::http::tx_response response(via::http::response_status::code::OK);
      c->send(std::move(response), rq.uri() == "/b" ? std::string("ok") : std::string(body_bytes, 'b'));
    }
  });
  server.socket_connected_event([&conns](https_connection::weak_pointer) { ++conns; });
  server.socket_disconnected_event([&disc](https_connection::weak_pointer) { ++disc; });
  unsigned short port = hu::free_port(static_cast<unsigned>(getpid()) * 17u + static_cast<unsigned>(body_bytes % 911u));
  if (!port) return "HARNESS-ERROR no-port";
  try { boost::system::error_code e2(server.accept_connections(port)); if (e2) return "HARNESS-ERROR listen: " + e2.message(); }
  catch (std::exception const& e) { return std::string("HARNESS-ERROR listen: ") + e.what(); }
  std::atomic<bool> alive{true};
  std::string threw = "-";
  std::thread loop([&io, &alive, &threw]()
  {
    try { io.run(); } catch (std::exception const& e) { threw = e.what(); for (auto& ch : threw) if (ch == ' ') ch = '_'; }
    alive = false;
  });

  size_t got = 0, expected = body_bytes; std::string how = "-", b = "-"; long bms = -1;
  auto serve_b = [&]()
  {
    auto t0 = std::chrono::steady_clock::now();
    tls_client cb; bool complete = false; std::string h2;
    if (cb.connect(port, 3000) && cb.send(request(true, true, "/b"))) { size_t n = cb.read_response(complete, h2); b = (complete && n == 2) ? "ok" : "none"; }
    else b = "none";
    bms = static_cast<long>(std::chrono::duration_cast<std::chrono::milliseconds>(std::chrono::steady_clock::now() - t0).count());
  };
  {
    tls_client ca;
    if (!ca.connect(port, 8000)) how = "no-handshake";
    else if (scenario == "close")
    {
      bool v11 = a.size() > 2 && a[2] == "1"; bool complete = false;
      ca.send(request(v11, v11, "/a"));
      got = ca.read_response(complete, how);
      if (complete) how = ca.wait_end();
    }
    else if (scenario == "keep")
    {
      int n = a.size() > 2 ? std::stoi(a[2]) : 2; expected = body_bytes * static_cast<size_t>(n); bool complete = true;
      for (int i = 0; i < n && complete; ++i) { ca.send(request(true, false, "/a")); got += ca.read_response(complete, how); }
      if (complete) { how = "client-closed"; SSL_shutdown(ca.ssl); }
    }
    else if (scenario == "linger")
    {
      bool complete = false;
      ca.send(request(true, true, "/a"));
      got = ca.read_response(complete, how);
      // A does not read any further (the server's close_notify stays unanswered) and keeps its socket open
      std::this_thread::sleep_for(std::chrono::milliseconds(100));
      serve_b();
      if (complete) how = "silent";
    }
    else if (scenario == "abort")
    {
      ca.send(request(true, true, "/a"));
      char buf[4096]; int n = SSL_read(ca.ssl, buf, sizeof buf); got = n > 0 ? 0 : 0;
      ca.reset(); how = "reset";
      std::this_thread::sleep_for(std::chrono::milliseconds(300));
      serve_b();
    }
  }
  std::this_thread::sleep_for(std::chrono::milliseconds(200));
  bool was_alive = alive.load();
  io.stop();
  loop.join();
  return "a=" + std::to_string(got) + "/" + std::to_string(expected) + ":" + how + " b=" + b + " bms=" + std::to_string(bms) +
         " conns=" + std::to_string(conns.load()) + " disc=" + std::to_string(disc.load()) + " alive=" + (was_alive ? "1" : "0") + " threw=" + threw;
}

int main(int argc, char** argv) { return hu::run_cases(argc, argv, handle); }
