// h_sim.cpp — deterministic simulation of the whole server: http_server<sim::adaptor<TLS>, std::string>
// driven by an event history (see sim_adaptor.hpp).  Output: the log of socket operations, bytes handed
// to write(), application callbacks, send() results and the sizes of both connection collections.
//
// case:  sim <tcp|tls> <opts> <events>
//   opts   : k=v,k=v  with app=sync|async|router|none chunk=0|1 cont=0|1 inv=0|1 trace=0|1 autod=0|1 xlate=0|1 maxc=n maxk=n nodisc=0|1 (no socket_disconnected_event handler registered)
//   events : ';' separated
//     A            accept a connection          Af  the filter refuses it      At  remote_endpoint() throws
//     H<id>:<ec>   complete the TLS handshake   R<id>:<hex> deliver bytes to the pending read
//     E<id>:<ec>   fail the pending read        W<id> complete the pending write   w<id>:<ec> fail it
//     S<id>:<ec>   complete the TLS shutdown    B  deliver every aborted completion
//     P<id>        (async app) answer the oldest unanswered request now
//     D<id>        application calls disconnect() on the http connection
//     X  server.shutdown()    C  server.close()    K  destroy the server    T  time passes
//     Y<0|1> server.set_keep_alive(b)
//     Z<ms>  server.set_timeout(ms)   (with opts timeo=1 every accept logs the SO_RCVTIMEO/SO_SNDTIMEO read back from the socket)
#define VERIF_WITH_ASIO
#include "open_access.hpp"
#include "sim_adaptor.hpp"
#include "via/http_server.hpp"
#include "close_access.hpp"
#include "hutil.hpp"

using namespace via;

static boost::system::error_code ec_of(std::string const& s)
{
  namespace e = boost::asio::error;
  if (s == "ok") return boost::system::error_code();
  if (s == "eof") return e::eof;
  if (s == "reset") return e::connection_reset;
  if (s == "aborted") return e::connection_aborted;
  if (s == "refused") return e::connection_refused;
  if (s == "badf") return e::bad_descriptor;
  if (s == "timedout") return e::timed_out;
  if (s == "pipe") return e::broken_pipe;
  if (s == "cancel") return e::operation_aborted;
  if (s == "sslshut") return boost::system::error_code(1, sim::sim_ssl_category());
  if (s == "sslerr") return boost::system::error_code(2, sim::sim_ssl_category());
  return e::fault;
}

struct Opts
{
  std::string app{"sync"};
  bool chunk{false}, cont{false}, inv{false}, trace{false}, autod{false}, xlate{true}, nodisc{false};
  size_t maxc{1048576}, maxk{1048576};
  bool timeo{false};
};

struct Recipe { int status{200}; size_t len{0}; int ov{1}; std::string hdrs; bool head_seen{false}; };

// the response recipe is read from the request target: /s<status>b<len>o<overload>h<hex header string>
static Recipe recipe_of(std::string const& uri)
{
  Recipe r;
  size_t i = 0;
  while (i < uri.size())
  {
    char c = uri[i++];
    if (c == 's' || c == 'b' || c == 'o')
    {
      size_t j = i; long v = 0; bool any = false;
      while (j < uri.size() && std::isdigit(static_cast<unsigned char>(uri[j]))) { v = v * 10 + (uri[j] - '0'); ++j; any = true; }
      if (any) { if (c == 's') r.status = static_cast<int>(v); else if (c == 'b') r.len = static_cast<size_t>(v); else r.ov = static_cast<int>(v); }
      i = j;
    }
    else if (c == 'h')
    {
      size_t j = i;
      while (j < uri.size() && std::isxdigit(static_cast<unsigned char>(uri[j]))) ++j;
      r.hdrs = hu::unhex(uri.substr(i, j - i));
      i = j;
    }
  }
  return r;
}

template <typename M, typename = void> struct has_size : std::false_type {};
template <typename M> struct has_size<M, std::void_t<decltype(std::declval<M const&>().size())>> : std::true_type {};
template <typename M> static size_t count_of(M const& m)
{ if constexpr (has_size<M>::value) return m.size(); else return m.data().size(); }

template <bool TLS>
struct Sim
{
  typedef sim::adaptor<TLS> Adaptor;
  typedef http_server<Adaptor, std::string> Server;
  typedef typename Server::http_connection_type HttpConn;
  typedef typename Server::http_request http_request;
  typedef typename Server::chunk_type chunk_type;
  typedef comms::connection<Adaptor> CommsConn;

  sim::world w;
  boost::asio::io_context io;
  std::unique_ptr<Server> server;
  Opts o;
  bool filter_ok{true};
  int reqno{0};
  // per connection application state
  struct AppConn { std::deque<Recipe> pending; std::deque<std::string> queue; std::deque<std::string> keep; std::weak_ptr<HttpConn> conn; int chunks_left{0}; bool last_due{false}; };
  std::map<int, AppConn> app;

  static int id_of(std::weak_ptr<HttpConn> const& weak)
  {
    auto p = weak.lock();
    if (!p) return -1;
    auto c = p->connection().lock();
    return c ? static_cast<Adaptor*>(c.get())->id_ : -2;
  }

  void say(int id, std::string const& s) { w.say(id, s); }

  // perform one response according to the recipe
  void respond(int id, std::shared_ptr<HttpConn> conn, Recipe const& r)
  {
    std::string body(r.len, static_cast<char>('a' + (reqno % 26)));
    http::tx_response response(http::response_status::reason_phrase(r.status).empty() ? std::string_view("Custom") : std::string_view(), r.status, r.hdrs);
    bool ok = false;
    AppConn& ac = app[id];
    switch (r.ov)
    {
    case 0: ok = conn->send(std::move(response)); break;
    case 1: ok = conn->send(std::move(response), std::move(body)); break;
    case 2:
      {
        // the body in three buffers the application keeps
        size_t n = body.size() / 3;
        size_t first = ac.keep.size();
        ac.keep.push_back(body.substr(0, n)); ac.keep.push_back(body.substr(n, n)); ac.keep.push_back(body.substr(2 * n));
        comms::ConstBuffers bufs;
        for (size_t i = first; i < ac.keep.size(); ++i) bufs.push_back(boost::asio::buffer(ac.keep[i]));
        ok = conn->send(std::move(response), std::move(bufs));
        break;
      }
    case 3: // chunked: head now, two chunks and the last chunk from the sent handler
      {
        response.add_header(http::header_field::id::TRANSFER_ENCODING, "Chunked");
        bool valid = response.is_valid();
        ok = conn->send(std::move(response));
        if (valid) { ac.chunks_left = 2; ac.last_due = true; }
        break;
      }
    case 4: ok = conn->send_response(); break;
    default: break;
    }
    say(id, std::string("send=") + (ok ? "1" : "0"));
  }

  void on_sent(int id, std::shared_ptr<HttpConn> conn)
  {
    AppConn& ac = app[id];
    if (ac.chunks_left > 0)
    {
      --ac.chunks_left;
      bool ok = conn->send_chunk(std::string(3, static_cast<char>('k' + ac.chunks_left)), ac.chunks_left ? "x=1" : "");
      say(id, std::string("send_chunk=") + (ok ? "1" : "0"));
    }
    else if (ac.last_due)
    {
      ac.last_due = false;
      bool ok = conn->last_chunk("", "T: v\r\n");
      say(id, std::string("last_chunk=") + (ok ? "1" : "0"));
    }
  }

  void setup()
  {
    sim::the_world() = &w;
    w.real_descriptors = o.timeo;
    server.reset(new Server(io));
    server->set_max_content_length(o.maxc);
    server->set_max_chunk_size(o.maxk);
    server->set_translate_head(o.xlate);
    server->set_trace_enabled(o.trace);
    server->set_auto_disconnect(o.autod);
    server->set_connection_filter([this](boost::asio::ip::tcp::socket const&) { return filter_ok; });
    server->socket_connected_event([this](std::weak_ptr<HttpConn> weak)
      { int id = id_of(weak); app[id].conn = weak; say(id, "connected"); });
    if (!o.nodisc)
      server->socket_disconnected_event([this](std::weak_ptr<HttpConn> weak)
        { say(id_of(weak), "disconnected"); });
    server->message_sent_event([this](std::weak_ptr<HttpConn> weak)
      { int id = id_of(weak); say(id, "sent"); if (auto c = weak.lock()) on_sent(id, c); });
    if (o.app == "router")
    {
      server->request_router().add_method("GET", "/hello",
        [](http_request const&, http::Parameters const&, std::string const&, std::string& rb)
        { rb = "hello"; return http::tx_response(http::response_status::code::OK); });
      server->request_router().add_method("GET", "/item/:id",
        [](http_request const&, http::Parameters const& p, std::string const&, std::string& rb)
        { auto it = p.find("id"); rb = "id=" + (it == p.end() ? std::string("?") : it->second); return http::tx_response(http::response_status::code::OK); });
      server->request_router().add_method("PUT", "/item/:id",
        [](http_request const&, http::Parameters const&, std::string const& body, std::string& rb)
        { rb = body; return http::tx_response(http::response_status::code::CREATED); });
      // what accept_connections() does when no request handler was registered
      server->http_request_handler_ = [this](std::weak_ptr<HttpConn> weak, http_request const& request, std::string const& body)
        { say(id_of(weak), "req=" + hu::hex(request.method()) + "," + hu::hex(request.uri())); server->route_request(weak, request, body); };
    }
    else if (o.app != "none")
    {
      server->request_received_event([this](std::weak_ptr<HttpConn> weak, http_request const& request, std::string const& body)
      {
        int id = id_of(weak);
        ++reqno;
        say(id, "req=" + hu::hex(request.method()) + "," + hu::hex(request.uri()) + "," + std::string(1, request.major_version()) + std::string(1, request.minor_version())
                + "," + hu::hex(body));
        Recipe r = recipe_of(request.uri());
        if (request.is_chunked() && o.chunk) { app[id].pending.push_back(r); return; }   // answer after the last chunk
        if (o.app == "sync") { if (auto c = weak.lock()) respond(id, c, r); }
        else app[id].pending.push_back(r);
      });
    }
    else
      server->request_received_event([this](std::weak_ptr<HttpConn> weak, http_request const& request, std::string const&)
        { say(id_of(weak), "req=" + hu::hex(request.method()) + "," + hu::hex(request.uri())); });
    if (o.chunk)
      server->chunk_received_event([this](std::weak_ptr<HttpConn> weak, chunk_type const& chunk, std::string const& data)
      {
        int id = id_of(weak);
        say(id, "chunk=" + std::to_string(chunk.size()) + "," + hu::hex(data) + "," + (chunk.is_last() ? "1" : "0"));
        if (chunk.is_last() && o.app == "sync" && !app[id].pending.empty())
        { Recipe r = app[id].pending.front(); app[id].pending.pop_front(); if (auto c = weak.lock()) respond(id, c, r); }
      });
    if (o.cont)
      server->request_expect_continue_event([this](std::weak_ptr<HttpConn> weak, http_request const& request, std::string const&)
      {
        int id = id_of(weak);
        say(id, "continue");
        // refuse bodies announced for /no..., otherwise let the client go on
        if (auto c = weak.lock())
        {
          if (request.uri().find("/no") == 0) { bool ok = c->send(http::tx_response(http::response_status::code::EXPECTATION_FAILED)); say(id, std::string("send=") + (ok ? "1" : "0")); }
          else { bool ok = c->send_response(); say(id, std::string("send=") + (ok ? "1" : "0")); }
        }
      });
    if (o.inv)
      server->invalid_request_event([this](std::weak_ptr<HttpConn> weak, http_request const&, std::string const&)
      {
        int id = id_of(weak);
        if (auto c = weak.lock())
        {
          say(id, "invalid=" + std::to_string(static_cast<int>(c->rx().response_code())));
          bool ok = c->send_response(); say(id, std::string("send=") + (ok ? "1" : "0"));
          c->disconnect();
        }
      });
    // open an acceptor without binding it, so that accept_handler() does its work
    boost::system::error_code ec;
    server->server_->acceptor_v4_.open(boost::asio::ip::tcp::v4(), ec);
  }

  Adaptor* adaptor(int id)
  {
    auto it = w.live.find(id);
    return it == w.live.end() ? nullptr : static_cast<Adaptor*>(it->second);
  }

  void sizes()
  {
    if (!server) { w.log.push_back("#gone"); return; }
    w.log.push_back("#" + std::to_string(count_of(server->http_connections_)) + "/" + std::to_string(count_of(server->server_->connections_)));
  }

  void event(std::string const& e)
  {
    char k = e[0];
    std::string rest = e.substr(1);
    std::string arg;
    auto colon = rest.find(':');
    int id = 0;
    if (colon != std::string::npos) { arg = rest.substr(colon + 1); rest = rest.substr(0, colon); }
    if (!rest.empty() && std::isdigit(static_cast<unsigned char>(rest[0]))) id = std::stoi(rest);
    switch (k)
    {
    case 'A':
      {
        filter_ok = rest != "f";
        w.next_endpoint_throws = rest == "t";
        if (!server) break;
        server->server_->accept_handler(boost::system::error_code(), boost::asio::ip::tcp::socket(io));
        if (o.timeo)
        {
          // what the library configured on the accepted socket (read back from the kernel)
          Adaptor* a = adaptor(w.next_id);
          if (a && a->socket_.fd >= 0)
          {
            struct timeval rv{0, 0}, sv{0, 0}; socklen_t l1 = sizeof rv, l2 = sizeof sv;
            getsockopt(a->socket_.fd, SOL_SOCKET, SO_RCVTIMEO, &rv, &l1);
            getsockopt(a->socket_.fd, SOL_SOCKET, SO_SNDTIMEO, &sv, &l2);
            w.say(w.next_id, "timeo=" + std::to_string(rv.tv_sec) + "." + std::to_string(rv.tv_usec) + "/" + std::to_string(sv.tv_sec) + "." + std::to_string(sv.tv_usec));
          }
        }
        break;
      }
    case 'H': { Adaptor* a = adaptor(id); if (a && a->handshake_pending_) { a->handshake_pending_ = false; auto h = a->handshake_handler_; h(ec_of(arg)); } else w.say(id, "NO-HANDSHAKE"); break; }
    case 'R':
      {
        Adaptor* a = adaptor(id);
        if (a && a->read_pending_)
        {
          if (!arg.empty() && arg.back() == '+') arg.pop_back();
          std::string bytes = hu::unhex(arg);
          a->read_pending_ = false;
          size_t n = std::min(bytes.size(), a->read_buf_.size());
          std::memcpy(a->read_buf_.data(), bytes.data(), n);
          auto h = a->read_handler_;
          h(boost::system::error_code(), n);
        }
        else w.say(id, "NO-READ");
        break;
      }
    case 'E': { Adaptor* a = adaptor(id); if (a && a->read_pending_) { a->read_pending_ = false; auto h = a->read_handler_; h(ec_of(arg), 0); } else w.say(id, "NO-READ"); break; }
    case 'W':
    case 'w':
      {
        Adaptor* a = adaptor(id);
        if (a && a->write_pending_)
        {
          a->write_pending_ = false;
          auto h = a->write_handler_;
          if (k == 'W')
          {
            // the bytes leave now: read them through the buffers the library handed over
            std::string now = sim::bytes_of(*a->write_bufs_);
            if (now != a->write_snapshot_) w.say(id, "STALE-BUFFER");
            w.say(id, "wire=" + sim::hexs(now));
            h(boost::system::error_code(), now.size());
          }
          else h(ec_of(arg), 0);
        }
        else w.say(id, "NO-WRITE");
        break;
      }
    case 'S': { Adaptor* a = adaptor(id); if (a && a->shutdown_pending_) { a->shutdown_pending_ = false; auto h = a->shutdown_handler_; h(ec_of(arg), 0); } else w.say(id, "NO-SHUTDOWN"); break; }
    case 'B':
      while (!w.aborted.empty()) { auto c = w.aborted.front(); w.aborted.pop_front(); w.say(c.id, std::string("aborted-") + c.kind); c.run(); }
      break;
    case 'P':
      {
        auto it = app.find(id);
        if (it != app.end() && !it->second.pending.empty())
        { Recipe r = it->second.pending.front(); it->second.pending.pop_front(); if (auto c = it->second.conn.lock()) respond(id, c, r); else w.say(id, "app-conn-gone"); }
        else if (it != app.end() && it->second.conn.lock())
        { Recipe r; r.status = 408; r.len = 0; r.ov = 1; respond(id, it->second.conn.lock(), r); }   // the application speaks on its own
        else w.say(id, "NOTHING-PENDING");
        break;
      }
    case 'D': { auto it = app.find(id); if (it != app.end()) { if (auto c = it->second.conn.lock()) { w.say(id, "app-disconnect"); c->disconnect(); } else w.say(id, "app-conn-gone"); } break; }
    case 'X': if (server) { w.log.push_back("server-shutdown"); server->shutdown(); } break;
    case 'C': if (server) { w.log.push_back("server-close"); server->close(); } break;
    case 'K': w.log.push_back("server-destroy"); server.reset(); break;
    case 'T': w.log.push_back("tick"); break;
    case 'Z': if (server) { server->set_timeout(std::stoi(rest)); w.log.push_back("set-timeout=" + rest); } break;
    case 'Y': if (server) { server->set_keep_alive(rest == "1"); w.log.push_back("set-keep-alive=" + rest); } break;
    default: w.log.push_back("?" + e);
    }
  }

  std::string run(std::vector<std::string> const& events)
  {
    setup();
    for (size_t ei = 0; ei < events.size(); ++ei)
    {
      auto const& e = events[ei];
      w.log.push_back("[" + e + "]");
      // R<id>:<hex>+  : when this read completes, the bytes of the connection's next R event have arrived already
      if (e.size() > 2 && e[0] == 'R' && e.back() == '+')
      {
        std::string idp = e.substr(0, e.find(':') + 1);
        for (size_t j = ei + 1; j < events.size(); ++j)
          if (events[j].compare(0, idp.size(), idp) == 0)
          {
            std::string nx = events[j].substr(idp.size());
            if (!nx.empty() && nx.back() == '+') nx.pop_back();
            w.available[std::stoi(e.substr(1))] = hu::unhex(nx);
            break;
          }
      }
      try { event(e); }
      catch (std::exception const& ex) { w.log.push_back(std::string("THROW:") + ex.what()); break; }
      sizes();
    }
    // pending operations left (the event loop could not return while these exist)
    std::string left;
    for (auto const& kv : w.live)
    {
      Adaptor* a = static_cast<Adaptor*>(kv.second);
      if (a->read_pending_ || a->write_pending_ || a->handshake_pending_ || a->shutdown_pending_)
        left += "c" + std::to_string(kv.first) + (a->read_pending_ ? "r" : "") + (a->write_pending_ ? "w" : "") + (a->handshake_pending_ ? "h" : "") + (a->shutdown_pending_ ? "s" : "") + " ";
    }
    std::string out;
    for (auto const& l : w.log) { if (!out.empty()) out += " "; out += l; }
    out += " pending=" + (left.empty() ? std::string("-") : left);
    app.clear();
    server.reset();
    sim::the_world() = nullptr;
    return out;
  }
};

static std::string handle(std::string const& op, std::vector<std::string> const& a)
{
  if (op != "sim") return "HARNESS-ERROR unknown-op " + op;
  Opts o;
  for (auto const& kv : hu::split(a[1], ','))
  {
    auto p = hu::split(kv, '=');
    if (p.size() != 2) continue;
    if (p[0] == "app") o.app = p[1];
    else if (p[0] == "chunk") o.chunk = p[1] == "1";
    else if (p[0] == "cont") o.cont = p[1] == "1";
    else if (p[0] == "inv") o.inv = p[1] == "1";
    else if (p[0] == "trace") o.trace = p[1] == "1";
    else if (p[0] == "autod") o.autod = p[1] == "1";
    else if (p[0] == "nodisc") o.nodisc = p[1] == "1";
    else if (p[0] == "xlate") o.xlate = p[1] == "1";
    else if (p[0] == "maxc") o.maxc = std::stoull(p[1]);
    else if (p[0] == "maxk") o.maxk = std::stoull(p[1]);
    else if (p[0] == "timeo") o.timeo = p[1] == "1";
  }
  auto events = hu::split(a[2], ';');
  if (a[0] == "tls") { Sim<true> s; s.o = o; return s.run(events); }
  Sim<false> s; s.o = o; return s.run(events);
}

int main(int argc, char** argv) { return hu::run_cases(argc, argv, handle); }
