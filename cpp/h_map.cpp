// h_map.cpp — threadsafe_hash_map driven by sequential operation sequences (same case syntax as
// ocaml/ops_map.ml) and, for `conc`, by several threads with a recorded call/return history.
#include "via/thread/threadsafe_hash_map.hpp"
#include "hutil.hpp"
#include <thread>
#include <atomic>
#include <chrono>

struct IdHash { std::size_t operator()(int k) const noexcept { return static_cast<std::size_t>(k); } };

template <unsigned N>
static std::string run_seq(std::vector<std::string> const& ops)
{
  via::thread::threadsafe_hash_map<int, int, IdHash, N> m;
  std::string out;
  bool first = true;
  for (auto const& o : ops)
  {
    auto p = hu::split(o, ':');
    std::string r;
    if (p[0] == "i") { m.insert(std::make_pair(std::stoi(p[1]), std::stoi(p[2]))); r = "_"; }
    else if (p[0] == "e") { m.erase(std::stoi(p[1])); r = "_"; }
    else if (p[0] == "f") { auto v = m.find(std::stoi(p[1])); r = std::to_string(v.first) + ":" + std::to_string(v.second); }
    else if (p[0] == "E") r = m.empty() ? "1" : "0";
    else if (p[0] == "D")
    {
      r = "[";
      bool f2 = true;
      for (auto const& kv : m.data()) { if (!f2) r += ","; f2 = false; r += std::to_string(kv.first) + ":" + std::to_string(kv.second); }
      r += "]";
    }
    else if (p[0] == "C") { m.clear(); r = "_"; }
    else r = "?";
    if (!first) out += ";";
    first = false;
    out += r;
  }
  return out;
}

// conc <nbuckets> <nthreads> <seed> <ops-per-thread> <nkeys>
// every thread performs random operations; each call is logged with a global logical clock read
// before the call and after the return, plus its result.  Output: one history line
//   t<id>:<call>:<ret>:<op>:<result> ...
template <unsigned N>
static std::string run_conc(int nthreads, unsigned seed, int nops, int nkeys)
{
  via::thread::threadsafe_hash_map<int, int, IdHash, N> m;
  std::atomic<long> clock{0};
  std::atomic<int> ready{0};
  std::vector<std::vector<std::string>> logs(nthreads);
  std::vector<std::thread> ths;
  for (int t = 0; t < nthreads; ++t)
    ths.emplace_back([&, t]() {
      unsigned s = seed * 7919u + static_cast<unsigned>(t) * 104729u + 1u;
      auto rnd = [&s]() { s = s * 1664525u + 1013904223u; return (s >> 8) & 0xffffff; };
      ++ready;
      while (ready.load() < nthreads) std::this_thread::yield();
      for (int i = 0; i < nops; ++i)
      {
        unsigned c = rnd() % 100;
        int k = static_cast<int>(rnd() % static_cast<unsigned>(nkeys));
        int v = t * 1000 + i + 1;
        std::string op, res;
        long t0 = clock.fetch_add(1);
        if (c < 35) { m.insert(std::make_pair(k, v)); op = "i:" + std::to_string(k) + ":" + std::to_string(v); res = "_"; }
        else if (c < 60) { m.erase(k); op = "e:" + std::to_string(k); res = "_"; }
        else if (c < 88) { auto r = m.find(k); op = "f:" + std::to_string(k); res = std::to_string(r.first) + ":" + std::to_string(r.second); }
        else if (c < 93) { bool e = m.empty(); op = "E"; res = e ? "1" : "0"; }
        else if (c < 98)
        {
          auto d = m.data(); op = "D"; res = "[";
          bool f2 = true;
          for (auto const& kv : d) { if (!f2) res += ","; f2 = false; res += std::to_string(kv.first) + ":" + std::to_string(kv.second); }
          res += "]";
        }
        else { m.clear(); op = "C"; res = "_"; }
        long t1 = clock.fetch_add(1);
        logs[t].push_back("t" + std::to_string(t) + "/" + std::to_string(t0) + "/" + std::to_string(t1) + "/" + op + "/" + res);
      }
    });
  for (auto& th : ths) th.join();
  std::string out;
  for (auto const& l : logs) for (auto const& e : l) { if (!out.empty()) out += " "; out += e; }
  return out;
}

static std::string handle(std::string const& op, std::vector<std::string> const& a)
{
  if (op == "hmap")
  {
    int n = std::stoi(a[0]);
    auto ops = hu::split(a[1], ',');
    switch (n)
    {
    case 1: return run_seq<1>(ops);
    case 2: return run_seq<2>(ops);
    case 3: return run_seq<3>(ops);
    case 19: return run_seq<19>(ops);
    default: return "HARNESS-ERROR buckets";
    }
  }
  if (op == "conc")
  {
    int n = std::stoi(a[0]), nt = std::stoi(a[1]); unsigned seed = static_cast<unsigned>(std::stoul(a[2]));
    int nops = std::stoi(a[3]), nkeys = std::stoi(a[4]);
    switch (n)
    {
    case 1: return run_conc<1>(nt, seed, nops, nkeys);
    case 2: return run_conc<2>(nt, seed, nops, nkeys);
    case 19: return run_conc<19>(nt, seed, nops, nkeys);
    default: return "HARNESS-ERROR buckets";
    }
  }
  return "HARNESS-ERROR unknown-op " + op;
}

int main(int argc, char** argv) { return hu::run_cases(argc, argv, handle); }
