// h_stream.cpp — request_receiver / response_receiver driven by fragment lists.
// The loop around receive() is the loop of http_server::receive_handler / http_client::receive_handler
// with the application policy "respond synchronously to every delivered request" (send() clears the
// receiver); h_sim.cpp runs the same streams through the real http_server.
//
// case:  req <inst D|T> <strict 0|1> <container s|v> <concat 0|1> <xlate 0|1, +2: deferred expect-continue answer> <maxcontent> <maxchunk> <frags>
//        rsp <inst D|T> <strict 0|1> <cont s|v> <maxbody> <maxchunk> <frags>
// output: calls=<state><consumed>,...|...per fragment...  events=...;...  state=<digest>
#include <string>
#include <vector>
#include <map>
#include <unordered_map>
#include <algorithm>
#include <type_traits>
#include <sstream>
#include <iostream>
#include <climits>
#include "open_access.hpp"
#include "via/http/request.hpp"
#include "via/http/response.hpp"
#include "close_access.hpp"
#include "hutil.hpp"

using namespace via::http;

// optional members (added by repairs; absent on older trees)
#define OPT_MEMBER(name) \
  template <typename T, typename = void> struct has_##name : std::false_type {}; \
  template <typename T> struct has_##name<T, std::void_t<decltype(std::declval<T const&>().name)>> : std::true_type {}; \
  template <typename T> static std::string opt_##name(T const& t) \
  { if constexpr (has_##name<T>::value) return std::to_string(static_cast<int>(t.name)); else return "x"; }
OPT_MEMBER(fail_)
OPT_MEMBER(cr_)
OPT_MEMBER(continue_pending_)

template <typename C> static std::string hx(C const& c) { return hu::hex(c); }

static std::string map_digest(StringMap const& m)
{
  std::vector<std::string> l;
  for (auto const& kv : m) l.push_back(hx(kv.first) + ":" + hx(kv.second));
  std::sort(l.begin(), l.end());
  std::string out;
  for (size_t i = 0; i < l.size(); ++i) { if (i) out += ","; out += l[i]; }
  return out.empty() ? "-" : out;
}

template <typename F> static std::string field_digest(F const& f)
{
  return hx(f.name_) + "," + hx(f.value_) + "," + std::to_string(f.length_) + "," + std::to_string(f.ws_count_) + ","
       + std::to_string(static_cast<int>(f.state_)) + "," + opt_fail_(f);
}

template <typename H> static std::string headers_digest(H const& h)
{
  return map_digest(h.fields_) + "/" + std::to_string(h.valid_) + "," + std::to_string(h.length_) + "," + opt_fail_(h) + "," + opt_cr_(h)
       + "/" + field_digest(h.field_);
}

template <typename K> static std::string chunk_digest(K const& k)
{
  typedef typename std::remove_reference<decltype(k)>::type KT;
  return std::to_string(k.size_) + "," + std::to_string(k.length_) + "," + std::to_string(k.ws_count_) + "," + hx(k.hex_size_) + ","
       + hx(k.extension_) + "," + std::to_string(static_cast<int>(k.state_)) + "," + std::to_string(k.size_read_) + ","
       + std::to_string(static_cast<bool>(k.KT::ChunkHeader::valid_)) + "/" + hx(k.data_) + "," + std::to_string(k.valid_)
       + "," + opt_cr_(k) + "," + opt_fail_(k) + "/" + headers_digest(k.trailers_);
}

static char rxc(Rx r)
{
  switch (r) { case Rx::INVALID: return 'I'; case Rx::EXPECT_CONTINUE: return 'X'; case Rx::INCOMPLETE: return 'N';
               case Rx::VALID: return 'V'; case Rx::CHUNK: return 'C'; }
  return '?';
}

template <typename K> static std::string chunk_event(K const& k)
{
  return "C(" + std::to_string(k.size()) + "," + hx(k.extension()) + "," + hx(k.data()) + "," + map_digest(k.trailers().fields()) + ","
       + std::to_string(k.is_last()) + ")";
}

static size_t map_size(StringMap const& m)
{ size_t n = 0; for (auto const& kv : m) n += kv.first.size() + kv.second.size(); return n; }

template <typename H> static size_t headers_retained(H const& h)
{ return map_size(h.fields_) + h.field_.name_.size() + h.field_.value_.size(); }

// C06: the request data a connection holds on to
template <typename R> static size_t retained(R const& rx)
{
  return rx.request_.method_.size() + rx.request_.uri_.size() + headers_retained(rx.request_.headers_) + rx.body_.size()
       + rx.chunk_.data_.size() + rx.chunk_.hex_size_.size() + rx.chunk_.extension_.size() + headers_retained(rx.chunk_.trailers_);
}

// one read: the bytes of the fragment followed by a trap the receiver must never look at.  The trap is CR LF CR LF
// (what a reused receive buffer may well hold behind the bytes just read), so a parser that peeks behind the end of
// its input accepts it and moves its iterator beyond the end - reported as OVERRUN; under AddressSanitizer the trap
// is poisoned as well, so any read behind the end is reported at once.
#if defined(__SANITIZE_ADDRESS__)
#include <sanitizer/asan_interface.h>
#endif
struct read_buffer
{
  std::vector<char> mem;
  size_t n;
  explicit read_buffer(std::string const& f) : mem(f.size() + 16, '\n'), n(f.size())
  {
    std::copy(f.begin(), f.end(), mem.begin());
    for (size_t i = 0; i < 16; i += 2) mem[n + i] = '\r';
#if defined(__SANITIZE_ADDRESS__)
    ASAN_POISON_MEMORY_REGION(mem.data() + n, 16);
#endif
  }
  ~read_buffer()
  {
#if defined(__SANITIZE_ADDRESS__)
    ASAN_UNPOISON_MEMORY_REGION(mem.data() + n, 16);
#endif
  }
  std::vector<char>::const_iterator begin() const { return mem.cbegin(); }
  std::vector<char>::const_iterator end() const { return mem.cbegin() + static_cast<std::ptrdiff_t>(n); }
  size_t size() const { return n; }
};

template <typename R>
static std::string run_req(R& rx, std::vector<std::string> const& frags, bool concat, bool defer_continue)
{
  std::string calls, events;
  size_t maxret = 0;
  for (auto const& f : frags)
  {
    read_buffer buf(f);
    auto iter = buf.begin();
    auto end = buf.end();
    Rx st = Rx::VALID;
    int guard = 0;
    if (!calls.empty()) calls += "|";
    bool firstc = true;
    while ((iter != end) && (st != Rx::INVALID))
    {
      if (++guard > 4 * static_cast<int>(buf.size()) + 16) { calls += "LOOP"; break; }
      auto before = iter;
      st = rx.receive(iter, end);
      if (!firstc) calls += ",";
      firstc = false;
      calls += rxc(st); calls += std::to_string(iter - before);
      if (iter > end) { calls += "OVERRUN"; break; }
      std::string ev;
      switch (st)
      {
      case Rx::VALID:
        if (!rx.request().is_trace())
        {
          ev = "V(" + hx(rx.request().method()) + "," + hx(rx.request().uri()) + "," + std::string(1, rx.request().major_version())
             + std::string(1, rx.request().minor_version()) + "," + map_digest(rx.request().headers().fields()) + "," + hx(rx.body())
             + "," + std::to_string(rx.is_head()) + ")";
          // the application answers at once unless it is waiting for the chunks
          if (!(rx.request().is_chunked() && !concat))
            rx.clear();
        }
        else
        {
          ev = "T(" + std::to_string(static_cast<int>(rx.response_code())) + ")";
          rx.clear();
        }
        break;
      case Rx::INVALID:
        ev = "I(" + std::to_string(static_cast<int>(rx.response_code())) + ")";
        rx.clear();
        break;
      case Rx::EXPECT_CONTINUE:
        ev = "X(" + std::to_string(static_cast<int>(rx.response_code())) + ")";
        // 's': the interim response is sent at once; 'd': the application's handler decides later
        if (!defer_continue) rx.set_continue_sent();
        break;
      case Rx::CHUNK:
        ev = chunk_event(rx.chunk());
        if (rx.chunk().is_last()) rx.clear();
        break;
      default: break;
      }
      if (!ev.empty()) { if (!events.empty()) events += ";"; events += ev; }
    }
    maxret = std::max(maxret, retained(rx));
  }
  auto const& q = rx.request_;
  std::string st = std::to_string(static_cast<int>(q.state_)) + "," + hx(q.method_) + "," + hx(q.uri_) + ","
    + std::to_string(static_cast<int>(static_cast<unsigned char>(q.major_version_))) + "," + std::to_string(static_cast<int>(static_cast<unsigned char>(q.minor_version_)))
    + "," + std::to_string(q.ws_count_) + "," + std::to_string(q.R::request_ln::valid_) + "," + std::to_string(q.fail_) + "," + std::to_string(q.valid_)
    + "#" + headers_digest(q.headers_) + "#" + chunk_digest(rx.chunk_) + "#" + hx(rx.body_) + ","
    + std::to_string(static_cast<int>(rx.response_code_)) + "," + std::to_string(rx.continue_sent_) + "," + std::to_string(rx.is_head_)
    + "," + opt_continue_pending_(rx);
  return "calls=" + (calls.empty() ? "-" : calls) + " events=" + (events.empty() ? "-" : events) + " state=" + st + " maxret=" + std::to_string(maxret);
}

template <typename R>
static std::string run_rsp(R& rx, std::vector<std::string> const& frags)
{
  std::string calls, events;
  for (auto const& f : frags)
  {
    read_buffer buf(f);
    auto iter = buf.begin();
    auto end = buf.end();
    Rx st = Rx::VALID;
    int guard = 0;
    if (!calls.empty()) calls += "|";
    bool firstc = true;
    while ((iter != end) && (st != Rx::INVALID))
    {
      if (++guard > 4 * static_cast<int>(buf.size()) + 16) { calls += "LOOP"; break; }
      auto before = iter;
      st = rx.receive(iter, end);
      if (!firstc) calls += ",";
      firstc = false;
      calls += rxc(st); calls += std::to_string(iter - before);
      if (iter > end) { calls += "OVERRUN"; break; }
      std::string ev;
      switch (st)
      {
      case Rx::VALID:
        ev = "V(" + std::to_string(rx.response().status()) + "," + hx(rx.response().reason_phrase()) + "," + std::string(1, rx.response().major_version())
           + std::string(1, rx.response().minor_version()) + "," + map_digest(rx.response().headers().fields()) + "," + hx(rx.body()) + ")";
        if (!rx.response().is_chunked()) rx.clear();
        break;
      case Rx::CHUNK:
        ev = chunk_event(rx.chunk());
        if (rx.chunk().is_last()) rx.clear();
        break;
      case Rx::INVALID:
        ev = "I";
        rx.clear();
        break;
      default: break;
      }
      if (!ev.empty()) { if (!events.empty()) events += ";"; events += ev; }
    }
  }
  auto const& q = rx.response_;
  std::string st = std::to_string(static_cast<int>(q.state_)) + "," + std::to_string(q.status_) + "," + hx(q.reason_phrase_) + ","
    + std::to_string(static_cast<int>(static_cast<unsigned char>(q.major_version_))) + "," + std::to_string(static_cast<int>(static_cast<unsigned char>(q.minor_version_)))
    + "," + std::to_string(q.ws_count_) + "," + std::to_string(q.status_read_) + "," + std::to_string(q.fail_) + "," + std::to_string(q.valid_)
    + "#" + headers_digest(q.headers_) + "#" + chunk_digest(rx.chunk_) + "#" + hx(rx.body_);
  return "calls=" + (calls.empty() ? "-" : calls) + " events=" + (events.empty() ? "-" : events) + " state=" + st;
}

// instantiations: D = the http_server defaults, T = tiny limits so that every limit is crossed by short inputs
template <typename C, bool STRICT> using ReqD = request_receiver<C, 8190, 8, 100, 65534, 1024, 8, STRICT>;
template <typename C, bool STRICT> using ReqT = request_receiver<C, 8, 4, 3, 40, 24, 2, STRICT>;
template <typename C, bool STRICT> using RspD = response_receiver<C, 65534, 65534, 65534, LONG_MAX, 65534, 254, STRICT>;
template <typename C, bool STRICT> using RspT = response_receiver<C, 599, 8, 3, 40, 24, 2, STRICT>;

template <typename R>
static std::string do_req(std::vector<std::string> const& a)
{
  R rx(static_cast<size_t>(std::stoull(a[5])), static_cast<size_t>(std::stoull(a[6])));
  bool concat = a[3] == "1";
  rx.set_concatenate_chunks(concat);
  // a[4]: bit 0 = HEAD translation, bit 1 = the application's expect-continue handler answers later
  rx.set_translate_head(a[4] == "1" || a[4] == "3");
  bool defer_continue = a[4] == "2" || a[4] == "3";
  std::vector<std::string> frags;
  for (auto const& f : hu::split(a[7], ',')) frags.push_back(hu::unhex(f));
  return run_req(rx, frags, concat, defer_continue);
}

template <typename R>
static std::string do_rsp(std::vector<std::string> const& a)
{
  R rx(static_cast<size_t>(std::stoull(a[3])), static_cast<size_t>(std::stoull(a[4])));
  std::vector<std::string> frags;
  for (auto const& f : hu::split(a[5], ',')) frags.push_back(hu::unhex(f));
  return run_rsp(rx, frags);
}

static std::string handle(std::string const& op, std::vector<std::string> const& a)
{
  typedef std::string S; typedef std::vector<char> V;
  if (op == "req")
  {
    std::string k = a[0] + a[1] + a[2];
    if (k == "D0s") return do_req<ReqD<S, false>>(a);
    if (k == "D1s") return do_req<ReqD<S, true>>(a);
    if (k == "D0v") return do_req<ReqD<V, false>>(a);
    if (k == "D1v") return do_req<ReqD<V, true>>(a);
    if (k == "T0s") return do_req<ReqT<S, false>>(a);
    if (k == "T1s") return do_req<ReqT<S, true>>(a);
    if (k == "T0v") return do_req<ReqT<V, false>>(a);
    if (k == "T1v") return do_req<ReqT<V, true>>(a);
    return "HARNESS-ERROR inst";
  }
  if (op == "rsp")
  {
    std::string k = a[0] + a[1] + a[2];
    if (k == "D0s") return do_rsp<RspD<S, false>>(a);
    if (k == "D1s") return do_rsp<RspD<S, true>>(a);
    if (k == "D0v") return do_rsp<RspD<V, false>>(a);
    if (k == "D1v") return do_rsp<RspD<V, true>>(a);
    if (k == "T0s") return do_rsp<RspT<S, false>>(a);
    if (k == "T1s") return do_rsp<RspT<S, true>>(a);
    if (k == "T0v") return do_rsp<RspT<V, false>>(a);
    if (k == "T1v") return do_rsp<RspT<V, true>>(a);
    return "HARNESS-ERROR inst";
  }
  return "HARNESS-ERROR unknown-op " + op;
}

int main(int argc, char** argv) { return hu::run_cases(argc, argv, handle); }
