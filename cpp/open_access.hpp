// open_access.hpp — include every standard (and, when VERIF_WITH_ASIO is defined, boost.asio)
// header the library uses, THEN make every member of the library's classes reachable from the
// harness.  `class` -> `struct` is needed because the library declares its data members in the
// implicit private section at the top of each class.  Include close_access.hpp afterwards.
#include <algorithm>
#include <array>
#include <cctype>
#include <cerrno>
#include <climits>
#include <cstdlib>
#include <ctime>
#include <deque>
#include <functional>
#include <iostream>
#include <map>
#include <memory>
#include <mutex>
#include <set>
#include <shared_mutex>
#include <sstream>
#include <stdexcept>
#include <string>
#include <string_view>
#include <unordered_map>
#include <utility>
#include <vector>
#include <type_traits>
#include <thread>
#include <atomic>
#include <boost/archive/iterators/base64_from_binary.hpp>
#include <boost/archive/iterators/binary_from_base64.hpp>
#include <boost/archive/iterators/insert_linebreaks.hpp>
#include <boost/archive/iterators/remove_whitespace.hpp>
#include <boost/archive/iterators/transform_width.hpp>
#ifdef VERIF_WITH_ASIO
#include <boost/asio.hpp>
#include <boost/system/error_code.hpp>
#endif
#define private public
#define protected public
#define class struct
