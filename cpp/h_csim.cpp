// h_csim.cpp — deterministic simulation of the real http_client<sim::adaptor<TLS>, std::string> driven by an
// event history (see sim_adaptor.hpp).  Output: the log of socket operations, bytes handed to write(),
// application callbacks and the results of the application's calls.
//
// case:  csim <tcp|tls> <opts> <events>
//   opts   : k=v,k=v  with inv=0|1 (invalid handler registered) chunk=0|1 (chunk handler) period=0|1 (reconnect timer)
//            reclose=0|1 (the disconnected callback calls close() on the client)
//            port=80|http maxb=n maxk=n
//   events : ';' separated
//     O   application calls connect(host, port, period)      Or  ... and the name does not resolve
//     N:<ec>  complete the pending connect     H:<ec>  complete the TLS handshake
//     R:<hex> deliver bytes to the pending read   E:<ec> fail the pending read
//     W  complete the pending write    w:<ec> fail it    S:<ec> complete the TLS shutdown
//     B  deliver every aborted completion          T  the reconnect timer fires (if armed)
//     L<kind>:<ec>  the oldest cancelled operation of that kind (r w n h s) had already completed with <ec>
//            when it was cancelled: its handler runs with that result
//     q<ov>:<method-hex>,<uri-hex>,<headers-hex>,<body-hex>   send a request through overload ov (0 head only,
//            1 Container body, 2 ConstBuffers body)
//     b:<hex> send_body   k:<hex>,<ext-hex> send_chunk(Container)   j:<hex>,<ext-hex> send_chunk(ConstBuffers)
//     l:<ext-hex>,<trailers-hex> last_chunk
//     D  disconnect()   C  close()   K  destroy the client
#define VERIF_WITH_ASIO
#include "open_access.hpp"
#include "sim_adaptor.hpp"
#include "via/http_client.hpp"
#include "close_access.hpp"
#include "hutil.hpp"
#include <thread>
#include <chrono>

using namespace via;

static boost::system::error_code ec_of(std::string const& s)
{
  namespace e = boost::asio::error;
  if (s == "ok") return boost::system::error_code();
  if (s == "eof") return e::eof;
  if (s == "reset") return e::connection_reset;
  if (s == "aborted") return e::connection_aborted;
  if (s == "refused") return e::connection_refused;
  if (s == "badf") return e::bad_descriptor;
  if (s == "timedout") return e::timed_out;
  if (s == "pipe") return e::broken_pipe;
  if (s == "cancel") return e::operation_aborted;
  if (s == "sslshut") return boost::system::error_code(1, sim::sim_ssl_category());
  if (s == "sslerr") return boost::system::error_code(2, sim::sim_ssl_category());
  return e::fault;
}

struct Opts { bool inv{false}, chunk{false}, period{false}, reclose{false}; std::string port{"80"}; size_t maxb{1048576}, maxk{1048576}; };

template <typename F> static std::string fields_digest(F const& headers)
{
  // name=value pairs, hex coded, sorted
  std::vector<std::string> l;
  for (auto const& kv : headers.fields_) l.push_back(hu::hex(kv.first) + "=" + hu::hex(kv.second));
  std::sort(l.begin(), l.end());
  std::string out;
  for (auto const& x : l) { if (!out.empty()) out += "&"; out += x; }
  return out.empty() ? "-" : out;
}

template <bool TLS>
struct CSim
{
  typedef sim::adaptor<TLS> Adaptor;
  typedef http_client<Adaptor, std::string> Client;
  sim::world w;
  boost::asio::io_context io;
  std::shared_ptr<Client> client;
  Opts o;
  std::vector<std::string> keep;

  void say(std::string const& s) { w.say(1, s); }

  void setup()
  {
    sim::the_world() = &w;
    w.next_is_client = true;
    client = Client::create(io,
      [this](typename Client::http_response const& r, std::string const& body)
      {
        say("resp=" + std::to_string(r.status()) + "," + hu::hex(r.reason_phrase()) + "," + std::string(1, r.major_version()) + std::string(1, r.minor_version())
            + "," + fields_digest(r.headers()) + "," + hu::hex(body));
      },
      [this](typename Client::chunk_type const& c, std::string const& data)
      {
        say("chunk=" + std::to_string(c.size()) + "," + hu::hex(c.extension()) + "," + hu::hex(data) + "," + (c.is_last() ? "1" : "0") + "," + fields_digest(c.trailers()));
      },
      Adaptor::DEFAULT_RX_BUFFER_SIZE, o.maxb, o.maxk);
    if (!o.chunk) client->http_chunk_handler_ = nullptr;
    if (o.inv) client->invalid_response_event([this](typename Client::http_response const&, std::string const&) { say("invalid"); });
    client->connected_event([this]() { say("connected"); });
    client->disconnected_event([this]()
      {
        say("disconnected");
        // an application that gives the client up as soon as it is told of a disconnection
        if (o.reclose && client) { say("app-close"); client->close(); }
      });
    client->message_sent_event([this]() { say("sent"); });
  }

  Adaptor* adaptor()
  {
    auto it = w.live.find(1);
    return it == w.live.end() ? nullptr : static_cast<Adaptor*>(it->second);
  }

  void state()
  {
    if (!client) { w.log.push_back("#gone"); return; }
    auto& c = *client->connection_;
    w.log.push_back(std::string("#") + (c.connected_ ? "c" : "-") + (c.transmitting_ ? "t" : "-") + (c.disconnect_pending_ ? "p" : "-") +
                    (c.shutdown_sent_ ? "s" : "-") + "/" + std::to_string(client->rx_buffer_.size()));
  }

  void event(std::string const& e)
  {
    char k = e[0];
    std::string rest = e.substr(1);
    std::string arg;
    auto colon = rest.find(':');
    if (colon != std::string::npos) { arg = rest.substr(colon + 1); rest = rest.substr(0, colon); }
    Adaptor* a = adaptor();
    auto parts = hu::split(arg, ',');
    auto part = [&parts](size_t i) { return i < parts.size() ? hu::unhex(parts[i]) : std::string(); };
    switch (k)
    {
    case 'O':
      if (client)
      {
        w.resolve_fails = rest == "r";
        bool ok = client->connect("h", o.port, o.period ? 1 : 0);
        say(std::string("connect-call=") + (ok ? "1" : "0"));
      }
      break;
    case 'N':
      if (a && a->connect_pending_) { a->connect_pending_ = false; auto h = a->connect_handler_; h(ec_of(arg), boost::asio::ip::tcp::endpoint()); }
      else say("NO-CONNECT");
      break;
    case 'H':
      if (a && a->handshake_pending_) { a->handshake_pending_ = false; auto h = a->handshake_handler_; h(ec_of(arg)); }
      else say("NO-HANDSHAKE");
      break;
    case 'R':
      if (a && a->read_pending_)
      {
        std::string bytes = hu::unhex(arg);
        a->read_pending_ = false;
        size_t n = std::min(bytes.size(), a->read_buf_.size());
        std::memcpy(a->read_buf_.data(), bytes.data(), n);
        auto h = a->read_handler_;
        h(boost::system::error_code(), n);
      }
      else say("NO-READ");
      break;
    case 'E':
      if (a && a->read_pending_) { a->read_pending_ = false; auto h = a->read_handler_; h(ec_of(arg), 0); }
      else say("NO-READ");
      break;
    case 'W':
    case 'w':
      if (a && a->write_pending_)
      {
        a->write_pending_ = false;
        auto h = a->write_handler_;
        if (k == 'W')
        {
          std::string now = sim::bytes_of(*a->write_bufs_);
          if (now != a->write_snapshot_) say("STALE-BUFFER");
          say("wire=" + sim::hexs(now));
          h(boost::system::error_code(), now.size());
        }
        else h(ec_of(arg), 0);
      }
      else say("NO-WRITE");
      break;
    case 'S':
      if (a && a->shutdown_pending_) { a->shutdown_pending_ = false; auto h = a->shutdown_handler_; h(ec_of(arg), 0); }
      else say("NO-SHUTDOWN");
      break;
    case 'B':
      while (!w.aborted.empty()) { auto c = w.aborted.front(); w.aborted.pop_front(); w.say(c.id, std::string("aborted-") + c.kind); c.run(); }
      break;
    case 'L':
      {
        char kind = rest.empty() ? 'r' : rest[0];
        bool found = false;
        for (auto it = w.aborted.begin(); it != w.aborted.end(); ++it)
          if (it->kind == kind)
          { auto c = *it; w.aborted.erase(it); w.say(c.id, std::string("late-") + c.kind); c.late(ec_of(arg)); found = true; break; }
        if (!found) say("NO-LATE");
        break;
      }
    case 'T':
      w.log.push_back("tick");
      if (client)
      {
        std::this_thread::sleep_for(std::chrono::milliseconds(3));
        io.restart();
        io.poll();
      }
      break;
    case 'q':
      if (client)
      {
        int ov = rest.empty() ? 0 : rest[0] - '0';
        http::tx_request request(part(0), part(1), part(2));
        bool ok = false;
        if (ov == 0) ok = client->send(std::move(request));
        else if (ov == 1) ok = client->send(std::move(request), part(3));
        else { keep.push_back(part(3)); ok = client->send(std::move(request), comms::ConstBuffers(1, boost::asio::buffer(keep.back()))); }
        say(std::string("send=") + (ok ? "1" : "0"));
      }
      break;
    case 'b': if (client) { bool ok = client->send_body(part(0)); say(std::string("send_body=") + (ok ? "1" : "0")); } break;
    case 'k': if (client) { bool ok = client->send_chunk(part(0), part(1)); say(std::string("send_chunk=") + (ok ? "1" : "0")); } break;
    case 'j':
      if (client)
      {
        keep.push_back(part(0));
        bool ok = client->send_chunk(comms::ConstBuffers(1, boost::asio::buffer(keep.back())), part(1));
        say(std::string("send_chunk=") + (ok ? "1" : "0"));
      }
      break;
    case 'l': if (client) { bool ok = client->last_chunk(part(0), part(1)); say(std::string("last_chunk=") + (ok ? "1" : "0")); } break;
    case 'D': if (client) { say("app-disconnect"); client->disconnect(); } break;
    case 'C': if (client) { say("app-close"); client->close(); } break;
    case 'K': w.log.push_back("client-destroy"); client.reset(); break;
    default: w.log.push_back("?" + e);
    }
  }

  std::string run(std::string const& opts, std::string const& events)
  {
    for (auto const& kv : hu::split(opts, ','))
    {
      auto p = kv.find('=');
      if (p == std::string::npos) continue;
      std::string key = kv.substr(0, p), v = kv.substr(p + 1);
      if (key == "inv") o.inv = v == "1";
      else if (key == "chunk") o.chunk = v == "1";
      else if (key == "period") o.period = v == "1";
      else if (key == "reclose") o.reclose = v == "1";
      else if (key == "port") o.port = v;
      else if (key == "maxb") o.maxb = std::stoul(v);
      else if (key == "maxk") o.maxk = std::stoul(v);
    }
    setup();
    std::string out;
    for (auto const& e : hu::split(events, ';'))
    {
      if (e.empty()) continue;
      w.log.clear();
      try { event(e); }
      catch (std::exception const& x) { w.log.push_back(std::string("EXCEPTION ") + x.what()); }
      state();
      out += "[" + e.substr(0, 1) + "]";
      for (auto const& l : w.log) out += " " + l;
      out += " ";
    }
    // tear down quietly
    w.log.clear();
    client.reset();
    while (!w.aborted.empty()) { auto c = w.aborted.front(); w.aborted.pop_front(); c.run(); }
    sim::the_world() = nullptr;
    return out;
  }
};

static std::string handle(std::string const& op, std::vector<std::string> const& a)
{
  if (op != "csim") return "HARNESS-ERROR unknown-op " + op;
  if (a[0] == "tls") { CSim<true> s; return s.run(a[1], a[2]); }
  CSim<false> s; return s.run(a[1], a[2]);
}

int main(int argc, char** argv) { return hu::run_cases(argc, argv, handle); }
