// h_real.cpp — the real server over the real tcp_adaptor on loopback sockets, one thread running the io_context.
// Supporting runs for what the simulation cannot execute: the socket adaptor itself (tcp_adaptor.hpp) and the
// kernel.  A blocking client with a small receive buffer sends requests and reads the responses slowly.
//
// case: real <body-bytes> <version 0|1> <close 0|1> <requests> <delay-ms> [<set_timeout ms>]
//   version 0: HTTP/1.0, 1: HTTP/1.1; close 1: Connection: close on the last request
// output: got=<complete responses> bytes=<body bytes received>/<expected> eof=<0|1 the server closed> err=<errno|0>
//         sent=<message-sent events> disc=<disconnected events>
#define VERIF_WITH_ASIO
#include "open_access.hpp"
#include "via/comms/tcp_adaptor.hpp"
#include "via/http_server.hpp"
#include "close_access.hpp"
#include "hutil.hpp"
#include <thread>
#include <atomic>
#include <chrono>
#include <future>
#include <mutex>

typedef via::http_server<via::comms::tcp_adaptor, std::string, true> http_server_type;
typedef http_server_type::http_connection_type http_connection;
typedef http_server_type::http_request http_request;

// case: reset <rounds> <delay-ms> <mode 0|1>
//   each round: a client sends a request and resets the connection at once (SO_LINGER 0); the request handler waits
//   <delay-ms> (the reset has reached the kernel by then) and, mode 0: calls disconnect(), mode 1: sends a response;
//   then a witness connection is served normally.
// output: threw=<what|-> conns=<connected events> disc=<disconnected events> witness=<responses>/<rounds> held=<http connections retained>
static std::string handle_reset(std::vector<std::string> const& a)
{
  int rounds = std::stoi(a[0]), delay_ms = std::stoi(a[1]), mode = std::stoi(a[2]);
  std::atomic<long> conns{0}, disc{0};
  boost::asio::io_context io;
  http_server_type server(io);
  server.request_received_event([delay_ms, mode](http_connection::weak_pointer w, http_request const& rq, std::string const&)
  {
    if (auto c = w.lock())
    {
      if (rq.uri() == "/witness")
      { via::http::tx_response response(via::http::response_status::code::OK); c->send(std::move(response), std::string("ok")); return; }
      std::this_thread::sleep_for(std::chrono::milliseconds(delay_ms));
      if (mode == 0) c->disconnect();
      else { via::http::tx_response response(via::http::response_status::code::OK); c->send(std::move(response), std::string(100000, 'r')); }
    }
  });
  server.socket_connected_event([&conns](http_connection::weak_pointer) { ++conns; });
  server.socket_disconnected_event([&disc](http_connection::weak_pointer) { ++disc; });
  unsigned short port = 0;
  port = hu::free_port(static_cast<unsigned>(getpid()) * 7u);
  if (!port) return "HARNESS-ERROR no-port";
  try { boost::system::error_code ec(server.accept_connections(port)); if (ec) return "HARNESS-ERROR listen: " + ec.message(); }
  catch (std::exception const& e) { return std::string("HARNESS-ERROR listen: ") + e.what(); }
  std::string threw = "-";
  std::thread loop([&io, &threw]()
  {
    for (;;)
    {
      try { io.run(); break; }
      catch (std::exception const& e) { if (threw == "-") { threw = e.what(); for (auto& ch : threw) if (ch == ' ') ch = '_'; } }
    }
  });
  using boost::asio::ip::tcp;
  long witness = 0;
  for (int r = 0; r < rounds; ++r)
  {
    boost::asio::io_context cio;
    boost::system::error_code ec;
    {
      tcp::socket sock(cio);
      sock.connect(tcp::endpoint(boost::asio::ip::make_address("127.0.0.1"), port), ec);
      if (ec) continue;
      std::string req = "GET /x HTTP/1.1\r\nHost: h\r\n\r\n";
      boost::asio::write(sock, boost::asio::buffer(req), ec);
      std::this_thread::sleep_for(std::chrono::milliseconds(r % 2 ? 2 : 0));
      struct linger lg; lg.l_onoff = 1; lg.l_linger = 0;
      setsockopt(sock.native_handle(), SOL_SOCKET, SO_LINGER, &lg, sizeof lg);
      sock.close(ec);
    }
    {
      tcp::socket sock(cio);
      sock.connect(tcp::endpoint(boost::asio::ip::make_address("127.0.0.1"), port), ec);
      if (ec) continue;
      struct timeval tv; tv.tv_sec = 10; tv.tv_usec = 0;
      setsockopt(sock.native_handle(), SOL_SOCKET, SO_RCVTIMEO, &tv, sizeof tv);
      std::string req = "GET /witness HTTP/1.1\r\nHost: h\r\nConnection: close\r\n\r\n";
      boost::asio::write(sock, boost::asio::buffer(req), ec);
      std::string got; char buf[4096];
      for (;;) { ssize_t n = ::recv(sock.native_handle(), buf, sizeof buf, 0); if (n <= 0) break; got.append(buf, static_cast<size_t>(n)); if (got.find("\r\n\r\nok") != std::string::npos) break; }
      if (got.find("\r\n\r\nok") != std::string::npos) ++witness;
      sock.close(ec);
    }
  }
  // read on the event loop's own thread
  auto held_now = [&io, &server]() -> size_t
  {
    auto p = std::make_shared<std::promise<size_t>>();
    auto f = p->get_future();
    boost::asio::post(io, [p, &server]() { p->set_value(server.http_connections_.size()); });
    return f.wait_for(std::chrono::seconds(5)) == std::future_status::ready ? f.get() : static_cast<size_t>(999999);
  };
  size_t held = held_now();
  for (int w = 0; w < 100 && (disc.load() != conns.load() || held); ++w)   // up to 5 s for the last events
  {
    std::this_thread::sleep_for(std::chrono::milliseconds(50));
    held = held_now();
  }
  io.stop();
  loop.join();
  return "threw=" + threw + " conns=" + std::to_string(conns.load()) + " disc=" + std::to_string(disc.load()) +
         " witness=" + std::to_string(witness) + "/" + std::to_string(rounds) + " held=" + std::to_string(held);
}

// case: timeo <events>   events ',' separated:  Z<ms> = server.set_timeout(ms), Y<0|1> = server.set_keep_alive(b) (both on the event loop's thread), A = a client connects and sends a request
//   the request handler reads SO_RCVTIMEO / SO_SNDTIMEO back from the accepted socket.  The server is listening before the first event.
// output: timeo=<rcv sec>.<usec>/<snd sec>.<usec>,...   one per A
static std::string handle_timeo(std::vector<std::string> const& a)
{
  std::mutex mx; std::string got;
  boost::asio::io_context io;
  http_server_type server(io);
  server.request_received_event([&mx, &got](http_connection::weak_pointer w, http_request const&, std::string const&)
  {
    if (auto c = w.lock())
    {
      if (auto tcp = c->connection_.lock())
      {
        int fd = static_cast<int>(tcp->socket().native_handle());
        struct timeval rv{0, 0}, sv{0, 0}; socklen_t l1 = sizeof rv, l2 = sizeof sv;
        getsockopt(fd, SOL_SOCKET, SO_RCVTIMEO, &rv, &l1);
        getsockopt(fd, SOL_SOCKET, SO_SNDTIMEO, &sv, &l2);
        std::lock_guard<std::mutex> g(mx);
        if (!got.empty()) got += ",";
        got += std::to_string(rv.tv_sec) + "." + std::to_string(rv.tv_usec) + "/" + std::to_string(sv.tv_sec) + "." + std::to_string(sv.tv_usec);
      }
      via::http::tx_response response(via::http::response_status::code::OK);
      c->send(std::move(response), std::string("ok"));
    }
  });
  unsigned short port = 0;
  port = hu::free_port(static_cast<unsigned>(getpid()) * 11u);
  if (!port) return "HARNESS-ERROR no-port";
  try { boost::system::error_code ec(server.accept_connections(port)); if (ec) return "HARNESS-ERROR listen: " + ec.message(); }
  catch (std::exception const& e) { return std::string("HARNESS-ERROR listen: ") + e.what(); }
  std::thread loop([&io]() { io.run(); });
  using boost::asio::ip::tcp;
  for (auto const& e : hu::split(a[0], ','))
  {
    if (e.empty()) continue;
    if (e[0] == 'Y')
    {
      bool on = e.substr(1) == "1";
      auto p = std::make_shared<std::promise<void>>(); auto f = p->get_future();
      boost::asio::post(io, [p, &server, on]() { server.set_keep_alive(on); p->set_value(); });
      f.wait_for(std::chrono::seconds(5));
    }
    else if (e[0] == 'Z')
    {
      int ms = std::stoi(e.substr(1));
      auto p = std::make_shared<std::promise<void>>(); auto f = p->get_future();
      boost::asio::post(io, [p, &server, ms]() { server.set_timeout(ms); p->set_value(); });
      f.wait_for(std::chrono::seconds(5));
    }
    else
    {
      boost::asio::io_context cio; boost::system::error_code ec;
      tcp::socket sock(cio);
      sock.connect(tcp::endpoint(boost::asio::ip::make_address("127.0.0.1"), port), ec);
      if (ec) continue;
      struct timeval tv; tv.tv_sec = 10; tv.tv_usec = 0;
      setsockopt(sock.native_handle(), SOL_SOCKET, SO_RCVTIMEO, &tv, sizeof tv);
      std::string req = "GET /t HTTP/1.1\r\nHost: h\r\nConnection: close\r\n\r\n";
      boost::asio::write(sock, boost::asio::buffer(req), ec);
      std::string in; char buf[1024];
      for (;;) { ssize_t n = ::recv(sock.native_handle(), buf, sizeof buf, 0); if (n <= 0) break; in.append(buf, static_cast<size_t>(n)); }
      sock.close(ec);
    }
  }
  io.stop();
  loop.join();
  return "timeo=" + (got.empty() ? std::string("-") : got);
}

static std::string handle(std::string const& op, std::vector<std::string> const& a)
{
  if (op == "timeo") return handle_timeo(a);
  if (op == "reset") return handle_reset(a);
  if (op != "real") return "HARNESS-ERROR unknown-op " + op;
  size_t body_bytes = static_cast<size_t>(std::stoull(a[0]));
  bool v11 = a[1] == "1", close_last = a[2] == "1";
  int nreq = std::stoi(a[3]), delay_ms = std::stoi(a[4]);
  int timeout_ms = a.size() > 5 ? std::stoi(a[5]) : 0;      // server.set_timeout() before listening (0: not set)
  std::atomic<long> sent{0}, disc{0};
  boost::asio::io_context io;
  http_server_type server(io);
  if (timeout_ms > 0) server.set_timeout(timeout_ms);
  server.request_received_event([body_bytes](http_connection::weak_pointer w, http_request const&, std::string const&)
  {
    if (auto c = w.lock())
    {
      via::http::tx_response response(via::http::response_status::code::OK);
      c->send(std::move(response), std::string(body_bytes, 'b'));
    }
  });
  server.message_sent_event([&sent](http_connection::weak_pointer) { ++sent; });
  server.socket_disconnected_event([&disc](http_connection::weak_pointer) { ++disc; });
  unsigned short port = 0;
  port = hu::free_port(static_cast<unsigned>(getpid()) * 13u + body_bytes % 977u);
  if (!port) return "HARNESS-ERROR no-port";
  try { boost::system::error_code ec(server.accept_connections(port)); if (ec) return "HARNESS-ERROR listen: " + ec.message(); }
  catch (std::exception const& e) { return std::string("HARNESS-ERROR listen: ") + e.what(); }
  std::thread loop([&io]() { io.run(); });

  long got = 0; unsigned long long bytes = 0; int eof = 0, err = 0;
  {
    using boost::asio::ip::tcp;
    boost::asio::io_context cio;
    tcp::socket sock(cio);
    boost::system::error_code ec;
    sock.open(tcp::v4(), ec);
    int rcvbuf = 8192;
    setsockopt(sock.native_handle(), SOL_SOCKET, SO_RCVBUF, &rcvbuf, sizeof rcvbuf);
    sock.connect(tcp::endpoint(boost::asio::ip::make_address("127.0.0.1"), port), ec);
    if (ec) { io.stop(); loop.join(); return "HARNESS-ERROR connect"; }
    struct timeval tv; tv.tv_sec = 20; tv.tv_usec = 0;
    setsockopt(sock.native_handle(), SOL_SOCKET, SO_RCVTIMEO, &tv, sizeof tv);
    std::string pending;
    for (int i = 0; i < nreq && !eof && !err; ++i)
    {
      bool last = i == nreq - 1;
      std::string req = std::string("GET /x HTTP/") + (v11 ? "1.1" : "1.0") + "\r\nHost: h\r\n" +
                        ((last && close_last) ? "Connection: close\r\n" : (!v11 && !last ? "Connection: keep-alive\r\n" : "")) + "\r\n";
      boost::asio::write(sock, boost::asio::buffer(req), ec);
      if (ec) { err = ec.value(); break; }
      std::this_thread::sleep_for(std::chrono::milliseconds(delay_ms));   // a slow reader: the server's write cannot finish at once
      bool done = false;
      size_t need = std::string::npos, head = 0;
      for (;;)
      {
        if (need == std::string::npos)
        {
          size_t he = pending.find("\r\n\r\n");
          if (he != std::string::npos)
          {
            size_t cl = pending.find("Content-Length: ");
            size_t len = (cl != std::string::npos && cl < he) ? std::stoull(pending.substr(cl + 16)) : 0;
            head = he + 4; need = head + len;
          }
        }
        if (need != std::string::npos && pending.size() >= need)
        { bytes += need - head; pending.erase(0, need); done = true; break; }
        char buf[65536];
        ssize_t n = ::recv(sock.native_handle(), buf, sizeof buf, 0);
        if (n == 0) { eof = 1; break; }
        if (n < 0) { err = errno; break; }
        pending.append(buf, static_cast<size_t>(n));
      }
      if (done) ++got;
      else if (need != std::string::npos && pending.size() > head) bytes += pending.size() - head;
    }
    if (!eof && !err)
    {
      // does the server close? (after HTTP/1.0 or Connection: close it must: wait for it; otherwise it must not)
      bool expect_close = close_last || !v11;
      struct timeval tv2; tv2.tv_sec = expect_close ? 6 : 0; tv2.tv_usec = expect_close ? 0 : 300000;
      setsockopt(sock.native_handle(), SOL_SOCKET, SO_RCVTIMEO, &tv2, sizeof tv2);
      char buf[16];
      ssize_t n = ::recv(sock.native_handle(), buf, sizeof buf, 0);
      if (n == 0) eof = 1;
    }
    sock.close(ec);
  }
  std::this_thread::sleep_for(std::chrono::milliseconds(50));
  io.stop();
  loop.join();
  return "got=" + std::to_string(got) + " bytes=" + std::to_string(bytes) + "/" + std::to_string(static_cast<unsigned long long>(body_bytes) * static_cast<unsigned long long>(nreq)) +
         " eof=" + std::to_string(eof) + " err=" + std::to_string(err) + " sent=" + std::to_string(sent.load()) + " disc=" + std::to_string(disc.load());
}

int main(int argc, char** argv) { return hu::run_cases(argc, argv, handle); }
