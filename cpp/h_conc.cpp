// h_conc.cpp — systematic exploration of thread interleavings of the real threadsafe_hash_map.
//
// The "threads" are ucontext coroutines and the pthread_rwlock_* functions (what std::shared_mutex is
// made of in libstdc++) are defined here, so every lock, shared lock and unlock the library performs is
// a scheduling point under the harness's control: a coroutine stops before each of them, the scheduler
// decides who moves next, and an acquire is only granted when the simulated lock is free (any number of
// shared holders or one exclusive holder).  For a small program (a few operations per thread) every
// schedule with at most <bound> preemptions is enumerated (stateless depth-first search), each run on a
// fresh map; the recorded call/return/result history of every run is checked for linearizability against
// an ordinary map.  This is the search for a failing history that accompanies the lock-protocol theorem;
// it is not the proof.
//
//   explore <nbuckets> <bound> <cap> <prefill-ops|-> <thread0-ops>|<thread1-ops>|...
//        -> n=<schedules> bad=<non-linearizable> dead=<deadlocks> [first=<schedule>;<history>]
//   runsched <nbuckets> <prefill-ops|-> <threads> <c0.c1.c2...|->
//        -> <history>
// ops: i:<k>:<v> e:<k> f:<k> E D C     history entries: t<id>/<call>/<ret>/<op>/<result>
#include "via/thread/threadsafe_hash_map.hpp"
#include "hutil.hpp"
#include <ucontext.h>
#include <pthread.h>
#include <map>
#include <set>
#include <cstring>
#include <functional>

namespace cs
{
  enum Kind { START, RD, WR, UN, OPB };
  struct LockState { int readers = 0; bool writer = false; };
  struct Co
  {
    ucontext_t ctx;
    std::vector<char> stack;
    bool done = false;
    bool started = false;
    Kind pend = START;
    void* addr = nullptr;
    std::function<void()> body;
  };
  struct Decision { int chosen; int options; bool preempt_if_other; };

  struct Sched
  {
    std::vector<Co> co;
    ucontext_t main_ctx;
    int cur = -1;                       // running coroutine, -1 = the harness itself
    std::map<void*, LockState> locks;
    std::vector<int> prefix;            // choices to replay
    std::vector<Decision> trace;        // choices made in this run
    int preemptions = 0;
    long clock = 0;
    bool deadlock = false;
    bool protocol_error = false;        // unlock of a free lock etc.

    bool enabled(Co const& c)
    {
      if (c.done) return false;
      if (c.pend == RD) { auto& l = locks[c.addr]; return !l.writer; }
      if (c.pend == WR) { auto& l = locks[c.addr]; return !l.writer && l.readers == 0; }
      return true;
    }
    // called from inside a coroutine before a lock operation
    void point(Kind k, void* a)
    {
      Co& c = co[static_cast<size_t>(cur)];
      c.pend = k; c.addr = a;
      swapcontext(&c.ctx, &main_ctx);
    }
    int lock_op(Kind k, void* a)
    {
      if (cur >= 0) point(k, a);
      LockState& l = locks[a];
      if (k == RD) { if (l.writer) protocol_error = true; ++l.readers; }
      else if (k == WR) { if (l.writer || l.readers) protocol_error = true; l.writer = true; }
      else if (k == UN)
      {
        if (l.writer) l.writer = false;
        else if (l.readers > 0) --l.readers;
        else protocol_error = true;
      }
      return 0;
    }
  };
  static Sched* S = nullptr;

  static void trampoline(int idx)
  {
    Co& c = S->co[static_cast<size_t>(idx)];
    c.body();
    c.done = true;
    swapcontext(&c.ctx, &S->main_ctx);
  }

  // run all coroutines to completion under the schedule prefix (default beyond it: keep running the
  // same thread while it is enabled)
  static void run(Sched& s, int bound)
  {
    S = &s;
    for (size_t i = 0; i < s.co.size(); ++i)
    {
      Co& c = s.co[i];
      c.stack.resize(256 * 1024);
      getcontext(&c.ctx);
      c.ctx.uc_stack.ss_sp = c.stack.data();
      c.ctx.uc_stack.ss_size = c.stack.size();
      c.ctx.uc_link = &s.main_ctx;
      makecontext(&c.ctx, reinterpret_cast<void (*)()>(trampoline), 1, static_cast<int>(i));
    }
    int prev = -1;
    size_t step = 0;
    for (;;)
    {
      std::vector<int> en;
      bool all_done = true;
      for (size_t i = 0; i < s.co.size(); ++i)
      {
        if (!s.co[i].done) all_done = false;
        if (s.enabled(s.co[i])) en.push_back(static_cast<int>(i));
      }
      if (all_done) break;
      if (en.empty()) { s.deadlock = true; break; }
      // order: the default first (previous thread if still enabled), then the others ascending
      std::vector<int> order;
      bool prev_enabled = false;
      for (int e : en) if (e == prev) prev_enabled = true;
      if (prev_enabled) order.push_back(prev);
      for (int e : en) if (e != prev) order.push_back(e);
      // switching away from a thread that could continue costs a preemption, except at an operation boundary
      bool costs = prev_enabled && s.co[static_cast<size_t>(prev)].pend != OPB;
      int options = static_cast<int>(order.size());
      if (costs && s.preemptions >= bound) options = 1;
      int choice = 0;
      if (step < s.prefix.size()) choice = s.prefix[step];
      if (choice >= options) choice = 0;
      s.trace.push_back({choice, options, costs});
      if (choice != 0 && costs) ++s.preemptions;
      int t = order[static_cast<size_t>(choice)];
      ++step;
      prev = t;
      s.cur = t;
      swapcontext(&s.main_ctx, &s.co[static_cast<size_t>(t)].ctx);
      s.cur = -1;
    }
    S = nullptr;
  }
}

extern "C"
{
  int pthread_rwlock_rdlock(pthread_rwlock_t* l) { return cs::S ? cs::S->lock_op(cs::RD, l) : 0; }
  int pthread_rwlock_wrlock(pthread_rwlock_t* l) { return cs::S ? cs::S->lock_op(cs::WR, l) : 0; }
  int pthread_rwlock_unlock(pthread_rwlock_t* l) { return cs::S ? cs::S->lock_op(cs::UN, l) : 0; }
  int pthread_rwlock_tryrdlock(pthread_rwlock_t* l)
  {
    if (!cs::S) return 0;
    if (cs::S->cur >= 0) cs::S->point(cs::OPB, l);
    auto& st = cs::S->locks[l];
    if (st.writer) return EBUSY;
    ++st.readers; return 0;
  }
  int pthread_rwlock_trywrlock(pthread_rwlock_t* l)
  {
    if (!cs::S) return 0;
    if (cs::S->cur >= 0) cs::S->point(cs::OPB, l);
    auto& st = cs::S->locks[l];
    if (st.writer || st.readers) return EBUSY;
    st.writer = true; return 0;
  }
}

struct IdHash { std::size_t operator()(int k) const noexcept { return static_cast<std::size_t>(k); } };

struct Event { int t; long call; long ret; std::string op; std::string res; };

template <typename M>
static std::string apply_op(M& m, std::string const& o)
{
  auto p = hu::split(o, ':');
  if (p[0] == "i") { m.insert(std::make_pair(std::stoi(p[1]), std::stoi(p[2]))); return "_"; }
  if (p[0] == "e") { m.erase(std::stoi(p[1])); return "_"; }
  if (p[0] == "f") { auto v = m.find(std::stoi(p[1])); return std::to_string(v.first) + ":" + std::to_string(v.second); }
  if (p[0] == "E") return m.empty() ? "1" : "0";
  if (p[0] == "D")
  {
    std::string r = "[";
    bool f2 = true;
    for (auto const& kv : m.data()) { if (!f2) r += ","; f2 = false; r += std::to_string(kv.first) + ":" + std::to_string(kv.second); }
    return r + "]";
  }
  if (p[0] == "C") { m.clear(); return "_"; }
  return "?";
}

// ---- linearizability against std::map ----
static bool spec_apply(std::map<int, int>& d, std::string const& o, std::string const& res)
{
  auto p = hu::split(o, ':');
  if (p[0] == "i") { d[std::stoi(p[1])] = std::stoi(p[2]); return res == "_"; }
  if (p[0] == "e") { d.erase(std::stoi(p[1])); return res == "_"; }
  if (p[0] == "f")
  {
    int k = std::stoi(p[1]); auto it = d.find(k);
    return res == (it == d.end() ? std::string("0:0") : std::to_string(k) + ":" + std::to_string(it->second));
  }
  if (p[0] == "E") return res == (d.empty() ? "1" : "0");
  if (p[0] == "D")
  {
    // as a set of pairs, no duplicate keys
    std::map<int, int> got; size_t n = 0;
    std::string body = res.size() >= 2 ? res.substr(1, res.size() - 2) : "";
    for (auto const& kv : hu::split(body, ','))
    {
      auto q = hu::split(kv, ':');
      if (q.size() != 2) return false;
      got[std::stoi(q[0])] = std::stoi(q[1]); ++n;
    }
    return n == got.size() && got == d;
  }
  if (p[0] == "C") { d.clear(); return res == "_"; }
  return false;
}

static bool lin_search(std::vector<Event> const& ev, unsigned done, std::map<int, int> const& st,
                       std::set<std::pair<unsigned, std::map<int, int>>>& seen)
{
  size_t n = ev.size();
  if (done == (1u << n) - 1u) return true;
  if (!seen.insert({done, st}).second) return false;
  long min_ret = -1;
  for (size_t i = 0; i < n; ++i)
    if (!(done & (1u << i)) && (min_ret < 0 || ev[i].ret < min_ret)) min_ret = ev[i].ret;
  for (size_t i = 0; i < n; ++i)
  {
    if (done & (1u << i)) continue;
    if (ev[i].call > min_ret) continue;
    std::map<int, int> d = st;
    if (spec_apply(d, ev[i].op, ev[i].res) && lin_search(ev, done | (1u << i), d, seen)) return true;
  }
  return false;
}

static bool linearizable(std::vector<Event> const& ev, std::map<int, int> const& init)
{
  if (ev.size() > 20) return true;
  std::set<std::pair<unsigned, std::map<int, int>>> seen;
  return lin_search(ev, 0u, init, seen);
}

static std::string show(std::vector<Event> const& ev)
{
  std::string out;
  for (auto const& e : ev)
  {
    if (!out.empty()) out += " ";
    out += "t" + std::to_string(e.t) + "/" + std::to_string(e.call) + "/" + std::to_string(e.ret) + "/" + e.op + "/" + e.res;
  }
  return out.empty() ? "-" : out;
}

struct Outcome { std::vector<Event> ev; bool deadlock; bool lockerr; std::vector<cs::Decision> trace; };

template <unsigned N>
static Outcome one_run(std::vector<std::string> const& prefill, std::vector<std::vector<std::string>> const& prog,
                       std::vector<int> const& prefix, int bound)
{
  via::thread::threadsafe_hash_map<int, int, IdHash, N> m;
  for (auto const& o : prefill) apply_op(m, o);
  cs::Sched s;
  s.prefix = prefix;
  std::vector<Event> ev;
  s.co.resize(prog.size());
  for (size_t t = 0; t < prog.size(); ++t)
  {
    s.co[t].body = [&, t]() {
      for (auto const& o : prog[t])
      {
        s.point(cs::OPB, nullptr);
        long c0 = s.clock++;
        std::string r = apply_op(m, o);
        long c1 = s.clock++;
        ev.push_back({static_cast<int>(t), c0, c1, o, r});
      }
    };
  }
  cs::run(s, bound);
  Outcome out;
  out.deadlock = s.deadlock; out.lockerr = s.protocol_error; out.trace = s.trace;
  if (!s.deadlock)
  {
    long c0 = s.clock++;
    std::string r = apply_op(m, "D");
    long c1 = s.clock++;
    ev.push_back({99, c0, c1, "D", r});
  }
  out.ev = ev;
  return out;
}

template <unsigned N>
static std::string explore(int bound, long cap, std::vector<std::string> const& prefill,
                           std::vector<std::vector<std::string>> const& prog)
{
  std::map<int, int> init;
  for (auto const& o : prefill) spec_apply(init, o, "_");
  std::vector<int> prefix;
  long n = 0, bad = 0, dead = 0;
  std::string first;
  for (;;)
  {
    Outcome o = one_run<N>(prefill, prog, prefix, bound);
    ++n;
    bool isbad = false;
    if (o.deadlock) { ++dead; isbad = true; }
    else if (o.lockerr || !linearizable(o.ev, init)) { ++bad; isbad = true; }
    if (isbad && first.empty())
    {
      std::string sc;
      for (auto const& d : o.trace) { if (!sc.empty()) sc += "."; sc += std::to_string(d.chosen); }
      first = (sc.empty() ? "-" : sc) + ";" + (o.deadlock ? "DEADLOCK " : "") + (o.lockerr ? "LOCK-MISUSE " : "") + show(o.ev);
    }
    if (n >= cap) break;
    // next schedule: the last decision with an untried alternative
    std::vector<cs::Decision> tr = o.trace;
    while (!tr.empty() && tr.back().chosen + 1 >= tr.back().options) tr.pop_back();
    if (tr.empty()) break;
    prefix.clear();
    for (auto const& d : tr) prefix.push_back(d.chosen);
    ++prefix.back();
  }
  std::string out = "n=" + std::to_string(n) + " bad=" + std::to_string(bad) + " dead=" + std::to_string(dead);
  if (!first.empty()) out += " first=" + first;
  return out;
}

static std::vector<std::vector<std::string>> parse_prog(std::string const& s)
{
  std::vector<std::vector<std::string>> prog;
  for (auto const& t : hu::split(s, '|')) prog.push_back(hu::split(t, ','));
  return prog;
}

static std::string handle(std::string const& op, std::vector<std::string> const& a)
{
  if (op == "explore")
  {
    int nb = std::stoi(a[0]), bound = std::stoi(a[1]); long cap = std::stol(a[2]);
    auto prefill = hu::split(a[3], ',');
    auto prog = parse_prog(a[4]);
    switch (nb)
    {
    case 1: return explore<1>(bound, cap, prefill, prog);
    case 2: return explore<2>(bound, cap, prefill, prog);
    case 3: return explore<3>(bound, cap, prefill, prog);
    case 19: return explore<19>(bound, cap, prefill, prog);
    default: return "HARNESS-ERROR buckets";
    }
  }
  if (op == "runsched")
  {
    int nb = std::stoi(a[0]);
    auto prefill = hu::split(a[1], ',');
    auto prog = parse_prog(a[2]);
    std::vector<int> prefix;
    for (auto const& c : hu::split(a[3], '.')) prefix.push_back(std::stoi(c));
    Outcome o;
    switch (nb)
    {
    case 1: o = one_run<1>(prefill, prog, prefix, 1000); break;
    case 2: o = one_run<2>(prefill, prog, prefix, 1000); break;
    case 3: o = one_run<3>(prefill, prog, prefix, 1000); break;
    case 19: o = one_run<19>(prefill, prog, prefix, 1000); break;
    default: return "HARNESS-ERROR buckets";
    }
    return std::string(o.deadlock ? "DEADLOCK " : "") + (o.lockerr ? "LOCK-MISUSE " : "") + show(o.ev);
  }
  return "HARNESS-ERROR unknown-op " + op;
}

int main(int argc, char** argv) { return hu::run_cases(argc, argv, handle); }
