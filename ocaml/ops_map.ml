(* ops_map.ml — threadsafe_hash_map, sequential operation sequences *)
open Model
open Dutil


let parse_op s = match String.split_on_char ':' s with
  | ["i"; k; v] -> OInsert (z_of_int (int_of_string k), z_of_int (int_of_string v))
  | ["e"; k] -> OErase (z_of_int (int_of_string k))
  | ["f"; k] -> OFind (z_of_int (int_of_string k))
  | ["E"] -> OEmpty | ["D"] -> OData | ["C"] -> OClear
  | _ -> failwith ("op " ^ s)

let show_res = function
  | RUnit -> "_"
  | RPair (k, v) -> Printf.sprintf "%d:%d" (int_of_z k) (int_of_z v)
  | RBool b -> b2s b
  | RList l -> "[" ^ String.concat "," (List.map (fun (k, v) -> Printf.sprintf "%d:%d" (int_of_z k) (int_of_z v)) l) ^ "]"

let () =
  reg "hmap" (fun a -> match a with [n; ops] ->
      let m = hm_empty_map id_hash (nat_of_int (int_of_string n)) in
      String.concat ";" (List.map show_res (hm_run m (List.map parse_op (split_on ',' ops))))
    | _ -> failwith "hmap")
