(* ops_router.ml — request_router / request_uri / split *)
open Model
open Dutil

let show_params p =
  let l = List.map (fun (k, v) -> (hex_of_str k, hex_of_str v)) p in
  let l = List.sort compare l in
  if l = [] then "-" else String.concat "," (List.map (fun (k, v) -> k ^ ":" ^ v) l)

(* regs: METHODhex|pathhex|hid|auth(-|n) , ... *)
let parse_regs s =
  List.map (fun r -> match String.split_on_char '|' r with
      | [m; p; h; a] -> { g_method = str_of_hex m; g_path = str_of_hex p; g_handler = nat_of_int (int_of_string h);
                          g_auth = (if a = "-" then None else Some (nat_of_int (int_of_string a))) }
      | _ -> failwith "reg") (split_on ',' s)

let () =
  reg "splitstr" (fun a -> match a with [s; d] ->
      String.concat "," (List.map hex_of_str (split (n_of_int (int_of_string d)) (str_of_hex s)))
    | _ -> failwith "splitstr");
  reg "uripath" (fun a -> match a with [s] -> hex_of_str (uri_path (str_of_hex s)) | _ -> failwith "uripath");
  reg "routeparams" (fun a -> match a with [u; r] ->
      (match get_route_parameters (str_of_hex u) (str_of_hex r) with
       | None -> "THROW" | Some p -> show_params p)
    | _ -> failwith "routeparams");
  reg "route" (fun a -> match a with [regs; m; t] ->
      (match handle_request (build_table (parse_regs regs)) (str_of_hex m) (str_of_hex t) with
       | DHandler (h, _, p) -> Printf.sprintf "H %d %s" (int_of_nat h) (show_params p)
       | DNotFound -> "404"
       | DNotAllowed allow -> "405 " ^ hex_of_str allow
       | DThrow -> "THROW")
    | _ -> failwith "route")
