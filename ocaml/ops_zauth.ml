(* ops_auth.ml — base64 and basic authentication *)
open Model
open Dutil

let parse_users s = List.map (fun up -> match String.split_on_char ':' up with
    | [u; p] -> (str_of_hex u, str_of_hex p) | [u] -> (str_of_hex u, []) | _ -> failwith "user") (split_on ';' s)

let lc_authorization = List.map (fun c -> n_of_int (Char.code c)) (List.init 13 (String.get "authorization"))

let () =
  reg "b64enc" (fun a -> match a with [s] -> hex_of_str (b64_encode (str_of_hex s)) | _ -> failwith "b64enc");
  reg "b64dec" (fun a -> match a with [s] -> hex_of_str (b64_decode (str_of_hex s)) | _ -> failwith "b64dec");
  reg "b64rt" (fun a -> match a with [s] -> hex_of_str (b64_decode (b64_encode (str_of_hex s))) | _ -> failwith "b64rt");
  (* routeauth <regs> <method> <target> <auth value|NONE> <users> <realm> : handlers with auth index 0 are protected *)
  reg "routeauth" (fun a -> match a with [regs; m; t; v; users; realm] ->
      let hdrs = if v = "NONE" then [] else [(lc_authorization, str_of_hex v)] in
      (match handle_request (build_table (Ops_router.parse_regs regs)) (str_of_hex m) (str_of_hex t) with
       | DHandler (h, None, p) -> Printf.sprintf "H %d %s" (int_of_nat h) (Ops_router.show_params p)
       | DHandler (h, Some _, p) ->
         (match authenticate_route (str_of_hex realm) (parse_users users) hdrs with
          | PRun -> Printf.sprintf "H %d %s" (int_of_nat h) (Ops_router.show_params p)
          | PUnauthorised c -> "401 " ^ hex_of_str c
          | PThrow -> "THROW")
       | DNotFound -> "404"
       | DNotAllowed allow -> "405 " ^ hex_of_str allow
       | DThrow -> "THROW")
    | _ -> failwith "routeauth");
  (* basic <users> <realm> <auth value | NONE> *)
  reg "basic" (fun a -> match a with [users; realm; v] ->
      let hdrs = if v = "NONE" then [] else [(lc_authorization, str_of_hex v)] in
      (match authenticate_route (str_of_hex realm) (parse_users users) hdrs with
       | PRun -> "valid=1 challenge=-"
       | PUnauthorised c -> "valid=0 challenge=" ^ hex_of_str c
       | PThrow -> "THROW")
    | _ -> failwith "basic")
