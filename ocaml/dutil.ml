(* dutil.ml — conversions between OCaml values and the extracted datatypes *)
open Model

(* ---- conversions ---------------------------------------------------------------------- *)
let rec pos_of_int i = if i = 1 then XH else if i land 1 = 0 then XO (pos_of_int (i lsr 1)) else XI (pos_of_int (i lsr 1))
let n_of_int i = if i = 0 then N0 else Npos (pos_of_int i)
let rec int_of_pos = function XH -> 1 | XO p -> 2 * int_of_pos p | XI p -> 2 * int_of_pos p + 1
let int_of_n = function N0 -> 0 | Npos p -> int_of_pos p
let rec nat_of_int i = if i = 0 then O else S (nat_of_int (i - 1))
let rec int_of_nat = function O -> 0 | S n -> 1 + int_of_nat n
(* decimal strings beyond OCaml int: build N by repeated *10 + d *)
let n_of_decstr s =
  let acc = ref N0 in
  String.iter (fun c -> acc := N.add (N.mul !acc (n_of_int 10)) (n_of_int (Char.code c - 48))) s; !acc
let rec decstr_of_n n =
  if n = N0 then "0" else begin
    let buf = Buffer.create 20 in
    let rec go n = if n = N0 then () else begin
      go (N.div n (n_of_int 10)); Buffer.add_char buf (Char.chr (48 + int_of_n (N.modulo n (n_of_int 10)))) end in
    go n; Buffer.contents buf end

let z_of_int i = if i = 0 then Z0 else if i > 0 then Zpos (pos_of_int i) else Zneg (pos_of_int (-i))
let int_of_z = function Z0 -> 0 | Zpos p -> int_of_pos p | Zneg p -> - (int_of_pos p)

let hexval c = match c with '0'..'9' -> Char.code c - 48 | 'a'..'f' -> Char.code c - 87 | 'A'..'F' -> Char.code c - 55 | _ -> failwith "hex"
let str_of_hex s =
  if s = "-" then [] else
  let n = String.length s / 2 in
  List.init n (fun i -> n_of_int (hexval s.[2*i] * 16 + hexval s.[2*i+1]))
let hex_of_str l =
  if l = [] then "-" else
  String.concat "" (List.map (fun b -> Printf.sprintf "%02x" (int_of_n b)) l)
let b2s b = if b then "1" else "0"
let bool_of_s s = s = "1"
let split_on c s = if s = "-" || s = "" then [] else String.split_on_char c s
let opt_n = function None -> "-1" | Some n -> decstr_of_n n


let ops : (string, string list -> string) Hashtbl.t = Hashtbl.create 64
let reg name f = Hashtbl.replace ops name f
