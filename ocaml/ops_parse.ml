(* ops_parse.ml — receivers and read loops; output syntax identical to cpp/h_stream.cpp *)
open Model
open Dutil

let d n = decstr_of_n n
let bi b = if b then "1" else "0"
let ni i = string_of_int (int_of_nat i)

let map_digest (m : (n list * n list) list) =
  let l = List.sort compare (List.map (fun (k, v) -> hex_of_str k ^ ":" ^ hex_of_str v) m) in
  if l = [] then "-" else String.concat "," l

let field_digest f =
  String.concat "," [hex_of_str f.fl_name; hex_of_str f.fl_value; d f.fl_length; d f.fl_ws; ni (fl_st_index f.fl_state); bi f.fl_fail]

let headers_digest h =
  map_digest h.hd_fields ^ "/" ^ bi h.hd_valid ^ "," ^ d h.hd_length ^ "," ^ bi h.hd_fail ^ "," ^ bi h.hd_cr ^ "/" ^ field_digest h.hd_field

let chunk_digest k =
  let c = k.rc_hdr in
  String.concat "," [d c.ck_size; d c.ck_length; d c.ck_ws; hex_of_str c.ck_hex; hex_of_str c.ck_ext; ni (ck_st_index c.ck_state);
                     bi c.ck_size_read; bi c.ck_valid]
  ^ "/" ^ hex_of_str k.rc_data ^ "," ^ bi k.rc_valid ^ "," ^ bi k.rc_cr ^ "," ^ bi k.rc_fail ^ "/" ^ headers_digest k.rc_trailers

let rxc = function RX_INVALID -> "I" | RX_EXPECT_CONTINUE -> "X" | RX_INCOMPLETE -> "N" | RX_VALID -> "V" | RX_CHUNK -> "C" | RX_UB -> "U"

let show_calls (cs : (rx * n) list list) =
  if cs = [] then "-" else
  String.concat "|" (List.map (fun l -> String.concat "," (List.map (fun (r, c) -> rxc r ^ d c) l)) cs)

let ch n = String.make 1 (Char.chr (int_of_n n land 255))

let show_event = function
  | EValid (m, u, ma, mi, h, b, ih) -> Printf.sprintf "V(%s,%s,%s%s,%s,%s,%s)" (hex_of_str m) (hex_of_str u) (ch ma) (ch mi) (map_digest h) (hex_of_str b) (bi ih)
  | ETrace c -> "T(" ^ d c ^ ")"
  | EInvalid c -> "I(" ^ d c ^ ")"
  | EContinue c -> "X(" ^ d c ^ ")"
  | EChunk (s, e, dt, t, l) -> Printf.sprintf "C(%s,%s,%s,%s,%s)" (d s) (hex_of_str e) (hex_of_str dt) (map_digest t) (bi l)

let show_cevent = function
  | CValid (s, r, ma, mi, h, b) -> Printf.sprintf "V(%s,%s,%s%s,%s,%s)" (d s) (hex_of_str r) (ch ma) (ch mi) (map_digest h) (hex_of_str b)
  | CInvalid -> "I"
  | CChunk (s, e, dt, t, l) -> Printf.sprintf "C(%s,%s,%s,%s,%s)" (d s) (hex_of_str e) (hex_of_str dt) (map_digest t) (bi l)

let join_events f evs = if evs = [] then "-" else String.concat ";" (List.map f evs)

let long_max = n_of_decstr "9223372036854775807"
let limits_of inst strict =
  match inst with
  | "D" -> { max_uri = n_of_int 8190; max_method = n_of_int 8; max_hdr_num = n_of_int 100; max_hdr_len = n_of_int 65534;
             max_line = n_of_int 1024; max_ws = n_of_int 8; max_status = n_of_int 65534; max_reason = n_of_int 65534; strict_crlf = strict }
  | "T" -> { max_uri = n_of_int 8; max_method = n_of_int 4; max_hdr_num = n_of_int 3; max_hdr_len = n_of_int 40;
             max_line = n_of_int 24; max_ws = n_of_int 2; max_status = n_of_int 599; max_reason = n_of_int 8; strict_crlf = strict }
  | _ -> failwith "inst"
let rsp_limits_of inst strict =
  match inst with
  | "D" -> { max_uri = N0; max_method = N0; max_hdr_num = n_of_int 65534; max_hdr_len = long_max;
             max_line = n_of_int 65534; max_ws = n_of_int 254; max_status = n_of_int 65534; max_reason = n_of_int 65534; strict_crlf = strict }
  | "T" -> { max_uri = N0; max_method = N0; max_hdr_num = n_of_int 3; max_hdr_len = n_of_int 40;
             max_line = n_of_int 24; max_ws = n_of_int 2; max_status = n_of_int 599; max_reason = n_of_int 8; strict_crlf = strict }
  | _ -> failwith "inst"

let frags_of s = List.map str_of_hex (split_on ',' s)

let () =
  reg "req" (fun a -> match a with [inst; strict; _cont; concat; xlate; mc; mk; frags] ->
      let cfg = { c_lim = limits_of inst (strict = "1"); c_max_content = n_of_decstr mc; c_max_chunk = n_of_decstr mk;
                  c_translate_head = (xlate = "1" || xlate = "3"); c_concat = (concat = "1"); c_defer_continue = (xlate = "2" || xlate = "3") } in
      let (((v, evs), calls), oof) = feed cfg (rv_init cfg) (frags_of frags) in
      (* what is retained after each read (C06) *)
      let maxret = ref N0 in
      let _ = List.fold_left (fun v f -> let (((v1, _), _), _) = read_loop cfg v f in
                               let r = retained v1 in (if N.ltb !maxret r then maxret := r); v1) (rv_init cfg) (frags_of frags) in
      let q = v.rv_req in
      let l = q.rq_line in
      let st = String.concat "," [ni (rl_st_index l.rl_state); hex_of_str l.rl_method; hex_of_str l.rl_uri; d l.rl_major; d l.rl_minor;
                                  d l.rl_ws; bi l.rl_valid; bi l.rl_fail; bi q.rq_valid]
               ^ "#" ^ headers_digest q.rq_headers ^ "#" ^ chunk_digest v.rv_chunk ^ "#"
               ^ String.concat "," [hex_of_str v.rv_body; d v.rv_code; bi v.rv_continue_sent; bi v.rv_is_head; "x"] in
      Printf.sprintf "calls=%s%s events=%s state=%s maxret=%s" (show_calls calls) (if oof then "LOOP" else "") (join_events show_event evs) st (d !maxret)
    | _ -> failwith "req");
  reg "rsp" (fun a -> match a with [inst; strict; _cont; mb; mk; frags] ->
      let cfg = { cc_lim = rsp_limits_of inst (strict = "1"); cc_max_body = n_of_decstr mb; cc_max_chunk = n_of_decstr mk } in
      let (((v, evs), calls), oof) = cfeed cfg (cv_init cfg) (frags_of frags) in
      let q = v.cv_rsp in
      let l = q.rp_line in
      let st = String.concat "," [ni (sl_st_index l.sl_state); d l.sl_status; hex_of_str l.sl_reason; d l.sl_major; d l.sl_minor;
                                  d l.sl_ws; bi l.sl_status_read; bi l.sl_fail; bi q.rp_valid]
               ^ "#" ^ headers_digest q.rp_headers ^ "#" ^ chunk_digest v.cv_chunk ^ "#" ^ hex_of_str v.cv_body in
      Printf.sprintf "calls=%s%s events=%s state=%s" (show_calls calls) (if oof then "LOOP" else "") (join_events show_cevent evs) st
    | _ -> failwith "rsp")
