(* ops_sim.ml — the server state machine on an event history; output syntax identical to cpp/h_sim.cpp *)
open Model
open Dutil

let errc_of = function
  | "ok" -> EC_ok | "eof" -> EC_eof | "reset" -> EC_reset | "aborted" -> EC_aborted | "refused" -> EC_refused
  | "badf" -> EC_badf | "timedout" -> EC_timedout | "pipe" -> EC_pipe | "cancel" -> EC_cancel
  | "sslshut" -> EC_sslshut | "sslerr" -> EC_sslerr | _ -> EC_other

let is_digit c = c >= '0' && c <= '9'
let is_xdigit c = is_digit c || (c >= 'a' && c <= 'f') || (c >= 'A' && c <= 'F')

(* the response recipe is read from the request target: /s<status>b<len>o<overload>h<hex header string> *)
let recipe_of (uri : n list) : recipe =
  let s = String.init (List.length uri) (fun i -> Char.chr (int_of_n (List.nth uri i) land 255)) in
  let status = ref 200 and len = ref 0 and ov = ref 1 and hdrs = ref "" in
  let n = String.length s in
  let i = ref 0 in
  while !i < n do
    let c = s.[!i] in
    incr i;
    if c = 's' || c = 'b' || c = 'o' then begin
      let j = ref !i and v = ref 0 and any = ref false in
      while !j < n && is_digit s.[!j] do v := !v * 10 + (Char.code s.[!j] - 48); incr j; any := true done;
      if !any then (if c = 's' then status := !v else if c = 'b' then len := !v else ov := !v);
      i := !j end
    else if c = 'h' then begin
      let j = ref !i in
      while !j < n && is_xdigit s.[!j] do incr j done;
      hdrs := String.sub s !i (!j - !i);
      i := !j end
  done;
  let hx = !hdrs in
  let hx = if String.length hx mod 2 = 1 then String.sub hx 0 (String.length hx - 1) else hx in
  { rp_status = n_of_int !status; rp_len = nat_of_int !len; rp_ov = n_of_int !ov; rp_hdrs = (if hx = "" then [] else str_of_hex hx) }

let cid i = "c" ^ string_of_int (int_of_nat i)
let chr n = String.make 1 (Char.chr (int_of_n n land 255))
let b01 b = if b then "1" else "0"

let show_item = function
  | LMark e -> "[" ^ String.init (List.length e) (fun i -> Char.chr (int_of_n (List.nth e i))) ^ "]"
  | LStart i -> cid i ^ ":start" | LHandshake i -> cid i ^ ":handshake" | LRead i -> cid i ^ ":read"
  | LWrite (i, b) -> cid i ^ ":write=" ^ hex_of_str b
  | LWire (i, b) -> cid i ^ ":wire=" ^ hex_of_str b
  | LStale i -> cid i ^ ":STALE-BUFFER"
  | LShutdown i -> cid i ^ ":shutdown" | LTruncated i -> cid i ^ ":TRUNCATED-WRITE"
  | LCancel i -> cid i ^ ":cancel" | LTlsShutdown i -> cid i ^ ":tls-shutdown" | LClose i -> cid i ^ ":close"
  | LAborted (i, k) -> cid i ^ ":aborted-" ^ (match int_of_n k with 0 -> "r" | 1 -> "w" | 2 -> "h" | _ -> "s")
  | LConnected i -> cid i ^ ":connected" | LDisconnected i -> cid i ^ ":disconnected"
  | LReq (i, m, u, ma, mi, b) -> Printf.sprintf "%s:req=%s,%s,%s%s,%s" (cid i) (hex_of_str m) (hex_of_str u) (chr ma) (chr mi) (hex_of_str b)
  | LChunk (i, s, d, l) -> Printf.sprintf "%s:chunk=%s,%s,%s" (cid i) (decstr_of_n s) (hex_of_str d) (b01 l)
  | LContinue i -> cid i ^ ":continue"
  | LInvalid (i, c) -> cid i ^ ":invalid=" ^ decstr_of_n c
  | LSent i -> cid i ^ ":sent"
  | LSend (i, w, ok) -> cid i ^ ":" ^ (match int_of_n w with 0 -> "send" | 1 -> "send_chunk" | _ -> "last_chunk") ^ "=" ^ b01 ok
  | LNo (i, w) -> cid i ^ ":" ^ (match int_of_n w with 0 -> "NO-READ" | 1 -> "NO-WRITE" | 2 -> "NO-HANDSHAKE" | 3 -> "NO-SHUTDOWN" | 4 -> "NOTHING-PENDING" | _ -> "app-conn-gone")
  | LAppDisconnect i -> cid i ^ ":app-disconnect"
  | LServer w -> (match int_of_n w with 0 -> "server-shutdown" | 1 -> "server-close" | 2 -> "server-destroy" | _ -> "tick")
  | LSizes (a, b) -> "#" ^ string_of_int (int_of_nat a) ^ "/" ^ string_of_int (int_of_nat b)
  | LGone -> "#gone"
  | LUndefined -> "UNDEFINED"

let parse_event (e : string) : sevent =
  let k = e.[0] in
  let rest = String.sub e 1 (String.length e - 1) in
  let rest, arg = match String.index_opt rest ':' with
    | Some i -> String.sub rest 0 i, String.sub rest (i + 1) (String.length rest - i - 1)
    | None -> rest, "" in
  let id = if rest <> "" && is_digit rest.[0] then nat_of_int (int_of_string rest) else O in
  match k with
  | 'A' -> EvAccept (rest <> "f")
  | 'H' -> EvHandshake (id, errc_of arg)
  | 'R' -> EvRead (id, str_of_hex (if String.length arg > 0 && arg.[String.length arg - 1] = '+' then String.sub arg 0 (String.length arg - 1) else arg))   (* '+': the harness makes the next bytes available early; the same history for the model *)
  | 'E' -> EvReadErr (id, errc_of arg)
  | 'W' -> EvWriteDone id
  | 'w' -> EvWriteErr (id, errc_of arg)
  | 'S' -> EvTlsShutdownDone (id, errc_of arg)
  | 'B' -> EvAborted
  | 'P' -> EvAppRespond id
  | 'D' -> EvAppDisconnect id
  | 'X' -> EvServerShutdown | 'C' -> EvServerClose | 'K' -> EvServerDestroy
  | _ -> EvTick

let () =
  reg "sim" (fun a -> match a with [flav; opts; events] ->
      let get k d = List.fold_left (fun acc kv -> match String.split_on_char '=' kv with [k'; v] when k' = k -> v | _ -> acc) d (split_on ',' opts) in
      let lim = Ops_parse.limits_of "D" false in
      let cfg = { c_lim = lim; c_max_content = n_of_decstr (get "maxc" "1048576"); c_max_chunk = n_of_decstr (get "maxk" "1048576");
                  c_translate_head = (get "xlate" "1" = "1"); c_concat = (get "chunk" "0" <> "1"); c_defer_continue = false } in
      let o = { o_tls = (flav = "tls"); o_app = n_of_int (match get "app" "sync" with "sync" -> 0 | "async" -> 1 | _ -> 2);
                o_chunk = (get "chunk" "0" = "1"); o_cont = (get "cont" "0" = "1"); o_inv = (get "inv" "0" = "1");
                o_trace = (get "trace" "0" = "1"); o_autod = (get "autod" "0" = "1"); o_cfg = cfg } in
      let evs = List.map (fun e -> (List.map (fun c -> n_of_int (Char.code c)) (List.init (String.length e) (String.get e)), parse_event e)) (split_on ';' events) in
      let (w, log) = run recipe_of o w_init evs in
      let pend = pending_ops w in
      let ps = String.concat "" (List.map (fun ((((i, r), wr), h), s) ->
          cid i ^ (if r then "r" else "") ^ (if wr then "w" else "") ^ (if h then "h" else "") ^ (if s then "s" else "") ^ " ") pend) in
      (* nodisc=1: the application registered no socket_disconnected_event handler, so it is not told *)
      let ends_with suf x = let n = String.length suf and m = String.length x in m >= n && String.sub x (m - n) n = suf in
      let shown = List.filter (fun x -> not (get "nodisc" "0" = "1" && ends_with ":disconnected" x)) (List.map show_item log) in
      String.concat " " shown ^ " pending=" ^ (if ps = "" then "-" else ps)
    | _ -> failwith "sim")
