(* driver.ml — runs the extracted model on a case file, one case per line, one result per line.
   Case line:   <op> <arg> <arg> ...      byte strings are hex ("-" = empty), numbers decimal.
   The C++ harnesses print the same result syntax for the same case file. *)
open Model

open Dutil

(* ---- operations ------------------------------------------------------------------------ *)

let () =
  reg "ctype" (fun a -> match a with [c] ->
      let c = n_of_int (int_of_string c) in
      String.concat " " [b2s (isupper c); b2s (isalpha c); b2s (isdigit c); b2s (isxdigit c); b2s (isblank c);
                         b2s (isspace c); b2s (iscntrl c); b2s (isalnum c); string_of_int (int_of_n (tolower c));
                         b2s (is_separator c); b2s (is_token c); b2s (is_end_of_line c)]
    | _ -> failwith "ctype");
  reg "fromdec" (fun a -> match a with [s] -> opt_n (from_dec_string (str_of_hex s)) | _ -> failwith "fromdec");
  reg "fromhex" (fun a -> match a with [s] -> opt_n (from_hex_string (str_of_hex s)) | _ -> failwith "fromhex");
  reg "todec" (fun a -> match a with [s] -> hex_of_str (to_dec_string (n_of_decstr s)) | _ -> failwith "todec");
  reg "tohex" (fun a -> match a with [s] -> hex_of_str (to_hex_string (n_of_decstr s)) | _ -> failwith "tohex");
  reg "split" (fun a -> match a with [s] -> b2s (are_headers_split (str_of_hex s)) | _ -> failwith "split");
  (* respmsg <status> <reason|-> <headers> <content_length> *)
  reg "respmsg" (fun a -> match a with [st; reason; hs; n] ->
      let r = tx_response_of_reason (str_of_hex reason) (n_of_decstr st) (str_of_hex hs) in
      Printf.sprintf "valid=%s msg=%s" (b2s (tx_response_is_valid r)) (hex_of_str (response_message r (n_of_decstr n)))
    | _ -> failwith "respmsg");
  (* respadd <status> <n> name:value,name:value — headers through add_header *)
  reg "respadd" (fun a -> match a with [st; n; nvs] ->
      let r0 = tx_response_of_code (n_of_decstr st) [] in
      let r = List.fold_left (fun r nv -> match String.split_on_char ':' nv with
          | [nm; v] -> add_header r (str_of_hex nm) (str_of_hex v) | _ -> failwith "nv") r0 (split_on ',' nvs) in
      Printf.sprintf "valid=%s msg=%s" (b2s (tx_response_is_valid r)) (hex_of_str (response_message r (n_of_decstr n)))
    | _ -> failwith "respadd");
  reg "reqmsg" (fun a -> match a with [m; u; ma; mi; hs; n] ->
      let r = { tq_method = str_of_hex m; tq_uri = str_of_hex u; tq_major = n_of_int (int_of_string ma);
                tq_minor = n_of_int (int_of_string mi); tq_headers = str_of_hex hs } in
      hex_of_str (request_message r (n_of_decstr n))
    | _ -> failwith "reqmsg");
  (* builder operations: C:<hex> (constructor header string, first) S:<hex> I:<id>:<hex> F:<hex>:<hex> L:<n> V H *)
  let parse_ops (s : string) =
    let h0 = ref [] and ops = ref [] in
    List.iter (fun o -> match String.split_on_char ':' o with
        | ["C"; h] -> h0 := str_of_hex h
        | ["S"; h] -> ops := BSet (str_of_hex h) :: !ops
        | ["I"; i; v] -> ops := BAddId (nat_of_int (int_of_string i), str_of_hex v) :: !ops
        | ["F"; n; v] -> ops := BAddFree (str_of_hex n, str_of_hex v) :: !ops
        | ["L"; n] -> ops := BAddCL (n_of_decstr n) :: !ops
        | ["V"] -> ops := BServer :: !ops
        | ["H"] -> ops := BContentHttp :: !ops
        | ["Q"] -> ()          (* is_valid() asked in between: a query, no effect on the message *)
        | _ -> failwith "bop") (split_on ';' s);
    (!h0, List.rev !ops) in
  reg "reqops" (fun a -> match a with [m; u; ma; mi; ops; n] ->
      let (h0, ops) = parse_ops ops in
      hex_of_str (request_ops_message (str_of_hex m) (str_of_hex u) (n_of_int (int_of_string ma)) (n_of_int (int_of_string mi)) h0 ops (n_of_decstr n))
    | _ -> failwith "reqops");
  reg "respops" (fun a -> match a with [st; reason; ops; n] ->
      let (h0, ops) = parse_ops ops in
      let r = response_ops (str_of_hex reason) (n_of_decstr st) h0 ops in
      Printf.sprintf "valid=%s msg=%s" (b2s (tx_response_is_valid r)) (hex_of_str (response_message r (n_of_decstr n)))
    | _ -> failwith "respops");
  reg "chunkhdr" (fun a -> match a with [n; ext] -> hex_of_str (chunk_header_string (n_of_decstr n) (str_of_hex ext)) | _ -> failwith "chunkhdr");
  reg "lastchunk" (fun a -> match a with [ext; tr] -> hex_of_str (last_chunk_string (str_of_hex ext) (str_of_hex tr)) | _ -> failwith "lastchunk");
  reg "hdrid" (fun a -> match a with [i; v] ->
      let i = nat_of_int (int_of_string i) in
      Printf.sprintf "%s %s" (hex_of_str (to_header (standard_name i) (str_of_hex v))) (hex_of_str (lowercase_name i))
    | _ -> failwith "hdrid")

let () =
  let ic = if Array.length Sys.argv > 1 then open_in Sys.argv.(1) else stdin in
  (try
     while true do
       let line = input_line ic in
       if line <> "" then begin
         match String.split_on_char ' ' line with
         | op :: args ->
           (match Hashtbl.find_opt ops op with
            | Some f -> (try print_endline (f args) with e -> print_endline ("MODEL-ERROR " ^ Printexc.to_string e))
            | None -> print_endline ("MODEL-ERROR unknown-op " ^ op))
         | [] -> ()
       end
     done
   with End_of_file -> ())
