(* ops_auth.ml — base64 and basic authentication *)
open Model
open Dutil

let parse_users s = List.map (fun up -> match String.split_on_char ':' up with
    | [u; p] -> (str_of_hex u, str_of_hex p) | [u] -> (str_of_hex u, []) | _ -> failwith "user") (split_on ';' s)

let lc_authorization = List.map (fun c -> n_of_int (Char.code c)) (List.init 13 (String.get "authorization"))

let () =
  reg "b64enc" (fun a -> match a with [s] -> hex_of_str (b64_encode (str_of_hex s)) | _ -> failwith "b64enc");
  reg "b64dec" (fun a -> match a with [s] -> hex_of_str (b64_decode (str_of_hex s)) | _ -> failwith "b64dec");
  reg "b64rt" (fun a -> match a with [s] -> hex_of_str (b64_decode (b64_encode (str_of_hex s))) | _ -> failwith "b64rt");
  (* basic <users> <realm> <auth value | NONE> *)
  reg "basic" (fun a -> match a with [users; realm; v] ->
      let hdrs = if v = "NONE" then [] else [(lc_authorization, str_of_hex v)] in
      (match authenticate_route (str_of_hex realm) (parse_users users) hdrs with
       | PRun -> "valid=1 challenge=-"
       | PUnauthorised c -> "valid=0 challenge=" ^ hex_of_str c
       | PThrow -> "THROW")
    | _ -> failwith "basic")
