(* ops_zcsim.ml — the client state machine on an event history; output syntax identical to cpp/h_csim.cpp *)
open Model
open Dutil

let errc_of = Ops_sim.errc_of
let b01 b = if b then "1" else "0"
let chr n = String.make 1 (Char.chr (int_of_n n land 255))
let str_of_bytes l = String.init (List.length l) (fun i -> Char.chr (int_of_n (List.nth l i) land 255))

let fields_digest (m : (n list * n list) list) =
  let l = List.sort compare (List.map (fun (k, v) -> hex_of_str k ^ "=" ^ hex_of_str v) m) in
  if l = [] then "-" else String.concat "&" l

let mark_char m = match int_of_n m with
  | 0 -> "O" | 1 -> "N" | 2 -> "H" | 3 -> "R" | 4 -> "E" | 5 -> "W" | 6 -> "w" | 7 -> "S" | 8 -> "B" | 9 -> "T"
  | 10 -> "q" | 11 -> "b" | 12 -> "k" | 13 -> "j" | 14 -> "l" | 15 -> "D" | 16 -> "C" | 17 -> "K" | _ -> "L"

let show = function
  | KMark m -> "[" ^ mark_char m ^ "]"
  | KConnectOp p -> "c1:connect=h:" ^ str_of_bytes p
  | KResolveFailed -> "c1:resolve-failed" | KReopen -> "c1:reopen"
  | KConnectCall ok -> "c1:connect-call=" ^ b01 ok
  | KHandshake -> "c1:handshake" | KRead -> "c1:read"
  | KWrite b -> "c1:write=" ^ hex_of_str b | KWire b -> "c1:wire=" ^ hex_of_str b
  | KShutdown -> "c1:shutdown" | KTruncated -> "c1:TRUNCATED-WRITE" | KCancel -> "c1:cancel" | KTlsShutdown -> "c1:tls-shutdown"
  | KClose -> "c1:close"
  | KAbortedC k -> "c1:aborted-" ^ (match int_of_n k with 0 -> "r" | 1 -> "w" | 2 -> "h" | 3 -> "s" | _ -> "n")
  | KConnected -> "c1:connected" | KDisconnected -> "c1:disconnected" | KSent -> "c1:sent"
  | KResp (s, r, ma, mi, h, b) -> Printf.sprintf "c1:resp=%s,%s,%s%s,%s,%s" (decstr_of_n s) (hex_of_str r) (chr ma) (chr mi) (fields_digest h) (hex_of_str b)
  | KChunk (s, e, d, l, t) -> Printf.sprintf "c1:chunk=%s,%s,%s,%s,%s" (decstr_of_n s) (hex_of_str e) (hex_of_str d) (b01 l) (fields_digest t)
  | KInvalid -> "c1:invalid"
  | KSendRes (w, ok) -> "c1:" ^ (match int_of_n w with 0 -> "send" | 1 -> "send_body" | 2 -> "send_chunk" | _ -> "last_chunk") ^ "=" ^ b01 ok
  | KNo w -> "c1:" ^ (match int_of_n w with 0 -> "NO-READ" | 1 -> "NO-WRITE" | 2 -> "NO-HANDSHAKE" | 3 -> "NO-SHUTDOWN" | 4 -> "NO-CONNECT" | _ -> "NO-LATE")
  | KLate k -> "c1:late-" ^ (match int_of_n k with 0 -> "r" | 1 -> "w" | 2 -> "h" | 3 -> "s" | _ -> "n")
  | KAppDisconnect -> "c1:app-disconnect" | KAppClose -> "c1:app-close" | KDestroy -> "client-destroy" | KTick -> "tick"
  | KState (c, t, p, s, n) -> "#" ^ (if c then "c" else "-") ^ (if t then "t" else "-") ^ (if p then "p" else "-") ^ (if s then "s" else "-") ^ "/" ^ decstr_of_n n
  | KGone -> "#gone"
  | KUndefined -> "UNDEFINED"

let parse_event (e : string) : cevt =
  let k = e.[0] in
  let rest = String.sub e 1 (String.length e - 1) in
  let rest, arg = match String.index_opt rest ':' with
    | Some i -> String.sub rest 0 i, String.sub rest (i + 1) (String.length rest - i - 1)
    | None -> rest, "" in
  let parts = Array.of_list (String.split_on_char ',' arg) in
  let part i = if i < Array.length parts && parts.(i) <> "" then str_of_hex parts.(i) else [] in
  match k with
  | 'O' -> CeConnect (rest = "r")
  | 'N' -> CeConnected (errc_of arg)
  | 'H' -> CeHandshake (errc_of arg)
  | 'R' -> CeRead (str_of_hex arg)
  | 'E' -> CeReadErr (errc_of arg)
  | 'W' -> CeWrite
  | 'w' -> CeWriteErr (errc_of arg)
  | 'S' -> CeTlsShutdown (errc_of arg)
  | 'B' -> CeAborted
  | 'T' -> CeTick
  | 'L' -> CeLate (n_of_int (match (if rest = "" then 'r' else rest.[0]) with 'r' -> 0 | 'w' -> 1 | 'h' -> 2 | 's' -> 3 | _ -> 4), errc_of arg)
  | 'q' -> CeSend (n_of_int (if rest = "" then 0 else Char.code rest.[0] - 48), part 0, part 1, part 2, part 3)
  | 'b' -> CeSendBody (part 0)
  | 'k' -> CeSendChunk (false, part 0, part 1)
  | 'j' -> CeSendChunk (true, part 0, part 1)
  | 'l' -> CeLastChunk (part 0, part 1)
  | 'D' -> CeDisconnect
  | 'C' -> CeClose
  | _ -> CeDestroy

let () =
  reg "csim" (fun a -> match a with [flav; opts; events] ->
      let get k d = List.fold_left (fun acc kv -> match String.split_on_char '=' kv with [k'; v] when k' = k -> v | _ -> acc) d (split_on ',' opts) in
      let cfg = { cc_lim = Ops_parse.rsp_limits_of "D" false; cc_max_body = n_of_decstr (get "maxb" "1048576"); cc_max_chunk = n_of_decstr (get "maxk" "1048576") } in
      let port = get "port" "80" in
      let o = { co_tls = (flav = "tls"); co_inv = (get "inv" "0" = "1"); co_chunk = (get "chunk" "0" = "1"); co_period = (get "period" "0" = "1"); co_reclose = (get "reclose" "0" = "1");
                co_port = List.init (String.length port) (fun i -> n_of_int (Char.code port.[i])); co_cfg = cfg } in
      let evs = List.map parse_event (List.filter (fun e -> e <> "") (String.split_on_char ';' events)) in
      let (_, log) = k_run o (cl_init o) evs in
      (* one blank after every event's segment, as the harness prints *)
      let buf = Buffer.create 1024 in
      let first = ref true in
      List.iter (fun it ->
          (match it with
           | KMark _ -> if not !first then Buffer.add_string buf " "; first := false
           | _ -> Buffer.add_string buf " ");
          Buffer.add_string buf (show it)) log;
      if not !first then Buffer.add_string buf " ";
      Buffer.contents buf
    | _ -> failwith "csim")
